#!/usr/bin/env python3
"""Regenerate the sensitivity tables (own mutants + independently seeded changes) as markdown."""
import json, os
V = "/verif"
desc = {
 "unbiased": "remove `biased;` from the actor loop's select!",
 "skip_onstop_on_drop": "skip on_stop when all references were dropped",
 "onrun_reports_stop_error": "report on_stop's error instead of on_run's when both fail",
 "cap_plus_one": "mpsc::channel(capacity + 1)",
 "ask_timeout_doubled": "ask_with_timeout waits 2x the timeout",
 "tell_double_record": "tell records a second dead letter when the control channel is closed too",
 "forget_receiver_on_kill": "mem::forget the mailbox receiver on the kill path (queued asks never fail)",
 "idle_never_cleared": "Ok(false) from on_run does not disable it",
 "kill_closed_is_err": "kill() on a dead actor returns Err",
 "tell_timeout_detached": "tell_with_timeout spawns the tell and times out on the JoinHandle (delivered after a reported timeout)",
 "ids_load_store": "actor id allocation by load + store instead of fetch_add",
 "blocking_ask_timeout_ignored": "blocking_ask(Some(t)) uses the no-timeout path",
 "alias_honours_timeout": "deprecated ask_blocking honours its timeout",
 "dl_counter_load_store": "dead-letter counter by load + store",
 "blocking_tell_reorder": "blocking_tell on a full mailbox hands the message to a helper thread and returns Ok",
 "lifecycle_keeps_strong_ref": "the lifecycle task keeps its strong ActorRef",
 "run_false_completes": "Ok(false) from on_run with an empty mailbox ends the actor (no on_stop)",
 "erased_tell_timeout_ignored": "TellHandler::tell_with_timeout ignores the timeout",
 "control_stop_kills": "ActorControl::stop calls kill",
 "metrics_guard_after_handler": "metrics guard created after the handler returned",
 "metrics_max_is_min": "max_processing_time updated with fetch_min",
 "metrics_counts_only_tells": "asks beyond the third message are not counted",
 "dd_max_steps_short": "cycle search gives up after 3 hops",
 "dd_on_stop_unscoped": "on_stop of the kill / last-drop branch runs outside the actor scope (asks untracked)",
 "dd_guard_leaks_on_timeout": "every fifth wait-for guard does not remove its edge",
 "dd_panic_under_lock": "deadlock panic raised while the graph lock is held (poisoned lock)",
 "kill_through_mailbox_when_idle": "kill() on an empty mailbox sends a graceful stop instead",
 "revert_fix_c03_late_push": "the C03 repair (fbc99f1) reverted: ask waits on the reply channel only",
 "revert_fix_c17_blocking_late_push": "the C17 repair (00c33fa) reverted: blocking_ask(None) waits with blocking_recv only",
 "revert_fix_c06_kill_then_drop": "the C06 repair (3d0cca7) reverted: the graceful arm ignores a kill signal that is already waiting",
 "dd_check_then_insert_two_locks": "deadlock detection checks for a cycle and inserts the edge under two separate lock acquisitions (check-then-act race, only visible on real threads)",
}
out = []
out.append("| own mutant (mutants/*.diff) | change | caught by (quick tier) | run but silent |")
out.append("|---|---|---|---|")
res = json.load(open(os.path.join(V, "mutants", "results.json")))
for name, props in res.items():
    c = [f"{p} ({v['sig'].split(' ',1)[-1]})" if v["sig"] else p for p, v in props.items() if v["verdict"] == "caught"]
    m = [p for p, v in props.items() if v["verdict"] == "missed"]
    out.append(f"| {name} | {desc.get(name, '')} | {', '.join(c) or '-'} | {', '.join(m) or '-'} |")
out.append("")
out.append("| seeded change (seeded/<id>) | breaks | what it does / needs | caught by | run but silent | note |")
out.append("|---|---|---|---|---|---|")
for name in sorted(os.listdir(os.path.join(V, "seeded"))):
    mp = os.path.join(V, "seeded", name, "meta.json")
    if not os.path.exists(mp):
        continue
    m = json.load(open(mp))
    checks = m.get("checks", {})
    caught, missed = [], []
    for k, v in checks.items():
        sig = ""
        for l in v.get("lines", []):
            l = l.strip()
            if l.startswith("C") and ":" in l:
                sig = l.split(":")[0].split(" ", 1)[-1]
                break
        (caught if v["verdict"] == "caught" else missed).append(k.split(":")[0] + (f" ({sig})" if sig and v["verdict"] == "caught" else ""))
    summ = (m.get("summary") or "").replace("\n", " ").replace("|", "/")
    need = (m.get("needs_to_manifest") or "").replace("\n", " ").replace("|", "/")
    out.append(f"| {name} | {m.get('breaks_property')} | {summ[:220]} — needs: {need[:200]} | {', '.join(caught) or '-'} | {', '.join(missed) or '-'} | {m.get('note', '')}{' [rebased onto the fix commits]' if str(m.get('rebased', '')).startswith('patch.diff is') else (' [applied to ' + m['base_commit'] + ']' if m.get('base_commit') else '')} |")
text = "\n".join(out)
import sys
if "--update" in sys.argv:
    d = open(os.path.join(V, "DESIGN.md")).read()
    b, e = "<!-- SENSITIVITY:BEGIN -->", "<!-- SENSITIVITY:END -->"
    i, j = d.index(b) + len(b), d.index(e)
    open(os.path.join(V, "DESIGN.md"), "w").write(d[:i] + "\n" + text + "\n" + d[j:])
    print("DESIGN.md updated")
else:
    print(text)
