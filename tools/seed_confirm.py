#!/usr/bin/env python3
"""Confirm a seeded change delivered by an independent sub-agent, in a fresh scratch worktree:

  tools/seed_confirm.py <ID> [--src /tmp/seed/<ID>.out] [--name <dir name under /verif/seeded>]

 1. the demonstration PASSES on the unchanged tree,
 2. the patch applies and the crate builds (default and --all-features),
 3. the demonstration FAILS with the patch,
 4. the existing test suite, unedited, passes with the patch (default features and --all-features).
Only then are patch.diff, the demonstration and meta.json stored under /verif/seeded/<name>/.
The scratch worktree and its build output are removed afterwards.
"""
import json, os, re, shutil, subprocess, sys, time

def sh(cmd, cwd, timeout=3600):
    e = dict(os.environ); e["CARGO_NET_OFFLINE"] = "true"
    r = subprocess.run(cmd, cwd=cwd, shell=True, env=e, stdout=subprocess.PIPE, stderr=subprocess.STDOUT, text=True, timeout=timeout)
    return r.returncode, r.stdout

def counts(out):
    p = f = 0
    for m in re.finditer(r"test result: \w+\. (\d+) passed; (\d+) failed", out):
        p += int(m.group(1)); f += int(m.group(2))
    return p, f

def main():
    pid = sys.argv[1]
    src = f"/tmp/seed/{pid}.out"
    name = pid
    if "--src" in sys.argv:
        src = sys.argv[sys.argv.index("--src") + 1]
    if "--name" in sys.argv:
        name = sys.argv[sys.argv.index("--name") + 1]
    meta = json.load(open(os.path.join(src, "meta.json")))
    wt = f"/tmp/confirm/{name}"
    shutil.rmtree(wt, ignore_errors=True)
    os.makedirs("/tmp/confirm", exist_ok=True)
    subprocess.run(["git", "-C", "/repo", "worktree", "prune"])
    subprocess.run(["git", "-C", "/repo", "worktree", "add", "--detach", "-f", wt, "HEAD"], check=True, stdout=subprocess.DEVNULL, stderr=subprocess.DEVNULL)
    result = {"confirmed_at": time.strftime("%Y-%m-%dT%H:%M:%SZ", time.gmtime()), "repo_head": subprocess.run(["git", "-C", "/repo", "rev-parse", "--short", "HEAD"], stdout=subprocess.PIPE, text=True).stdout.strip()}
    ok = False
    try:
        # where does the demo live and how is it run?
        demo_path = meta.get("demo_path", f"/tmp/seed/{pid}/tests/seeded_demo.rs")
        mm = re.search(r"[A-Za-z0-9_./-]+\.rs", demo_path)
        demo_path = mm.group(0) if mm else demo_path
        rel = re.sub(r"^/tmp/seed/[^/]+/", "", demo_path)
        demo_cmd = meta.get("demo_command", "cargo test --offline --test seeded_demo")
        demo_cmd = re.sub(r"cd\s+/tmp/seed/[^\s;&]+\s*(&&|;)\s*", "", demo_cmd).replace("&amp;", "&")
        demo_cmd = re.sub(r"/tmp/seed/[A-Za-z0-9_]+", wt, demo_cmd)
        os.makedirs(os.path.dirname(os.path.join(wt, rel)), exist_ok=True)
        shutil.copy(os.path.join(src, "demo.rs"), os.path.join(wt, rel))
        result["demo_rel_path"] = rel
        result["demo_command"] = demo_cmd
        c0, o0 = sh(demo_cmd, wt)
        result["demo_without_change_exit"] = c0
        c, o = sh(f"git apply --whitespace=nowarn {os.path.join(src, 'patch.diff')}", wt)
        result["patch_applies"] = c == 0
        if c != 0:
            result["error"] = o[-500:]
            return finish(name, src, meta, result, False)
        cb, ob = sh("cargo build --offline --all-features", wt)
        result["builds_all_features"] = cb == 0
        c1, o1 = sh(demo_cmd, wt)
        result["demo_with_change_exit"] = c1
        result["demo_with_change_tail"] = "\n".join(o1.splitlines()[-12:])
        os.remove(os.path.join(wt, rel))
        c2, o2 = sh("cargo test --workspace --no-fail-fast --offline", wt)
        p2, f2 = counts(o2)
        result["suite_default"] = {"exit": c2, "passed": p2, "failed": f2}
        c3, o3 = sh("cargo test --workspace --no-fail-fast --offline --all-features", wt)
        p3, f3 = counts(o3)
        result["suite_all_features"] = {"exit": c3, "passed": p3, "failed": f3}
        ok = c0 == 0 and c1 != 0 and cb == 0 and c2 == 0 and f2 == 0 and p2 >= 312 and c3 == 0 and f3 == 0
        return finish(name, src, meta, result, ok)
    finally:
        subprocess.run(["git", "-C", "/repo", "worktree", "remove", "--force", wt], stdout=subprocess.DEVNULL, stderr=subprocess.DEVNULL)
        shutil.rmtree(wt, ignore_errors=True)
        subprocess.run(["git", "-C", "/repo", "worktree", "prune"])

def finish(name, src, meta, result, ok):
    result["confirmed"] = ok
    print(json.dumps(result, indent=1))
    if ok:
        dst = f"/verif/seeded/{name}"
        os.makedirs(dst, exist_ok=True)
        if os.path.abspath(src) != os.path.abspath(dst):
            shutil.copy(os.path.join(src, "patch.diff"), os.path.join(dst, "patch.diff"))
            shutil.copy(os.path.join(src, "demo.rs"), os.path.join(dst, "demo.rs"))
        out = {"breaks_property": meta.get("property"), "summary": meta.get("summary"), "needs_to_manifest": meta.get("needs_to_manifest"),
               "author": "independent sub-agent given only the property text and a scratch worktree", "agent_report": meta, "confirmation": result, "checks": {}}
        old = os.path.join(dst, "meta.json")
        if os.path.exists(old):
            try:
                prev = json.load(open(old))
                out["checks"] = prev.get("checks", {})
                # a re-confirmation (patch rebased onto later fix commits) keeps who wrote the change and the notes
                for k in ("author", "note"):
                    if k in prev:
                        out[k] = prev[k]
                if prev.get("confirmation", {}).get("repo_head") != result.get("repo_head"):
                    out["previous_confirmation"] = prev.get("confirmation")
            except Exception:
                pass
        if os.path.exists(os.path.join(src, "patch.orig.diff")):
            shutil.copy(os.path.join(src, "patch.orig.diff"), os.path.join(dst, "patch.orig.diff"))
            out["rebased"] = "patch.diff is the change rebased (by the verifier, conflicts resolved by hand, intent kept) onto the later fix: commits of /repo; patch.orig.diff is what the sub-agent delivered against " + str((out.get("previous_confirmation") or {}).get("repo_head", "an earlier tree"))
        json.dump(out, open(old, "w"), indent=1)
        print(f"CONFIRMED {name}: stored under {dst}")
        return 0
    print(f"NOT CONFIRMED {name}")
    return 1

if __name__ == "__main__":
    sys.exit(main())
