#!/bin/bash
# stop background sensitivity runs (separate script so that pkill's pattern never matches the caller)
for pid in $(pgrep -f 'tools/mutant[.]py') $(pgrep -f 'rsv_mut/.*/simh') $(pgrep -f 'tools/mutbatch[.]sh'); do kill $pid 2>/dev/null; done
sleep 1
git -C /repo worktree prune
