#!/bin/bash
# run every thorough check once (sanity at depth); any VIOLATION on the unchanged tree is a false alarm to triage
cd "$(dirname "$0")/.."
for p in "$@"; do
  out=$(./check $p thorough 2>&1); code=$?
  echo "$p exit=$code $(echo "$out" | grep -E 'thorough:' | sed 's/.*thorough: //' | cut -c1-120)"
  if [ $code -ne 0 ]; then echo "$out" | grep -E "VIOLATION|HARNESS|^  C" | head -5; fi
done
