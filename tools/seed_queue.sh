#!/bin/bash
# usage: tools/seed_queue.sh "<name> <srcdir|-> <ID>..." ...  - (re)confirm from <srcdir> (default /tmp/seed/<name>.out) then run the named
# checks, sequentially, in the background; waits for an earlier queue/pipeline to finish first
( while pgrep -f "seed_confirm.py|seed_check.py" > /dev/null; do sleep 20; done
  for spec in "$@"; do set -- $spec; n=$1; src=$2; shift; shift
    if [ "$src" = "-" ]; then src=/tmp/seed/$n.out; fi
    python3 /verif/tools/seed_confirm.py $n --src $src > /tmp/confirm_$n.log 2>&1
    if grep -q "^CONFIRMED" /tmp/confirm_$n.log; then /verif/tools/seed_check.py $n "$@" > /tmp/seedchk_$n.log 2>&1; fi
  done ) > /dev/null 2>&1 &
disown
