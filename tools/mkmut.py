#!/usr/bin/env python3
"""Create a mutant patch: tools/mkmut.py <name> <file> <<< "OLD\n=====\nNEW" (exact-match replace, once).
Several edits: separate blocks with a line '#####' and start each with 'FILE: path'."""
import os, subprocess, sys, tempfile, shutil
name = sys.argv[1]
spec = sys.stdin.read()
blocks = spec.split("\n#####\n")
tmp = tempfile.mkdtemp()
subprocess.run(["git", "-C", "/repo", "worktree", "add", "--detach", "-f", tmp + "/r", "HEAD"], check=True, stdout=subprocess.DEVNULL, stderr=subprocess.DEVNULL)
try:
    for b in blocks:
        head, rest = b.split("\n", 1)
        assert head.startswith("FILE: "), head
        path = os.path.join(tmp, "r", head[6:].strip())
        old, new = rest.split("\n=====\n")
        old = old.strip("\n"); new = new.strip("\n")
        s = open(path).read()
        assert s.count(old) == 1, f"{name}: pattern occurs {s.count(old)} times in {path}:\n{old}"
        open(path, "w").write(s.replace(old, new))
    d = subprocess.run(["git", "-C", tmp + "/r", "diff"], stdout=subprocess.PIPE, text=True).stdout
    out = f"/verif/mutants/{name}.diff"
    open(out, "w").write(d)
    print(out, len(d.splitlines()), "lines")
finally:
    subprocess.run(["git", "-C", "/repo", "worktree", "remove", "--force", tmp + "/r"], check=False, stdout=subprocess.DEVNULL, stderr=subprocess.DEVNULL)
    shutil.rmtree(tmp, ignore_errors=True)
