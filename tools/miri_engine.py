"""Engine M: Miri as the seeded thread scheduler (DESIGN.md section 3).

The scenarios live in /verif/mthreads (real rsactor as a path dependency on the repository under
test, real tokio multi-thread runtime, real std threads). One Miri seed = one exactly repeatable
execution; the workload seed travels in argv.
"""
import hashlib, importlib.machinery, importlib.util, json, os, shutil, subprocess, sys, time
from concurrent.futures import ThreadPoolExecutor

HERE = os.path.dirname(os.path.abspath(__file__))
_loader = importlib.machinery.SourceFileLoader("check_driver", os.path.join(os.path.dirname(HERE), "check"))
_spec = importlib.util.spec_from_loader("check_driver", _loader)
ck = importlib.util.module_from_spec(_spec)
_loader.exec_module(ck)

SCENARIOS = {
    "C17": ["blocking", "timeout", "contended", "in_runtime", "deadletters", "blocking_ask_vs_end", "blocking", "timeout", "contended", "blocking_ask_vs_end", "end_vs_observers", "erased_blocking", "timed_independent", "timed_blocking_vs_end", "kill_busy_from_thread", "parked_executor", "parked_executor", "timed_independent"],
    "C01": ["async_mt"],
    "C03": ["ask_vs_end", "ask_vs_end", "async_mt", "end_vs_observers", "parked_executor"],
    "C02": ["async_mt"],
    "C06": ["kill_then_drop", "kill_then_drop", "kill_then_drop", "async_mt", "kill_busy_from_thread"],
    "C11": ["ids", "end_vs_observers"],
    "C14": ["dd_mt"],
    "C16": ["erased_blocking"],
    "C20": ["metrics_mt"],
    "C15": ["dd_mt"],
    "C13": ["deadletters", "blocking", "end_vs_observers", "ask_vs_end", "blocking_ask_vs_end"],
}
# pre-emption probability per basic block; 0 = a thread runs until it blocks or yields (long uninterrupted stretches:
# "the actor replies, stops and closes its mailbox before the woken caller runs" needs that)
RATES = ["0.01", "0.05", "0.2", "0"]
# which property does a never-returning operation violate, per scenario
HANG_PROP = {"async_mt": "C03", "ask_vs_end": "C03", "dd_mt": "C14", "erased_blocking": "C16", "kill_busy_from_thread": "C06"}

def menv():
    e = ck.env()
    return e

def prepare():
    """(Re)generate the manifest for the repository under test and make sure the crate builds under Miri."""
    mth = ck.MTH
    tpl = open(os.path.join(mth, "Cargo.toml.in")).read()
    new = tpl.replace("@REPO@", ck.REPO).replace("@EXTRA@", "")
    path = os.path.join(mth, "Cargo.toml")
    if not os.path.exists(path) or open(path).read() != new:
        open(path, "w").write(new)
    lock = os.path.join(mth, "Cargo.lock")
    if not os.path.exists(lock):
        shutil.copy(os.path.join(ck.REPO, "Cargo.lock"), lock)

def setup():
    prepare()
    with ck.Lock("miri-build"):
        r = subprocess.run(["cargo", "+nightly", "miri", "setup"], cwd=ck.MTH, env=menv(), stdout=subprocess.PIPE, stderr=subprocess.STDOUT, text=True)
        if r.returncode != 0:
            sys.stderr.write(r.stdout[-3000:])
            ck.die("cargo miri setup failed")
        # one run builds every dependency for the Miri target
        code, out = one_run("noop", 1, 1, "0.01")
        if code != 0:
            sys.stderr.write(out[-3000:])
            ck.die("Miri engine smoke run failed")
        code, out = one_run("metrics_mt", 1, 1, "0.01")
        if code != 0:
            sys.stderr.write(out[-3000:])
            ck.die("Miri engine smoke run (metrics build) failed")
    print("miri engine ready")

# scenarios that need rsactor's metrics feature: a build of their own (the collector reads the wall clock on every
# message, which would stop every other scenario under Miri's isolation) and no isolation
METRICS_SCENARIOS = ("metrics_mt",)

def one_run(scenario, wseed, miri_seed, rate):
    e = menv()
    e["MIRIFLAGS"] = f"-Zmiri-seed={miri_seed} -Zmiri-preemption-rate={rate} -Zmiri-ignore-leaks"
    cmd = ["cargo", "+nightly", "miri", "run", "--offline", "-q"]
    if scenario in METRICS_SCENARIOS:
        e["MIRIFLAGS"] += " -Zmiri-disable-isolation"
        cmd += ["--features", "metrics", "--target-dir", os.path.join(ck.MTH, "target-metrics")]
    r = subprocess.run(cmd + ["--", scenario, str(wseed)], cwd=ck.MTH, env=e, stdout=subprocess.PIPE, stderr=subprocess.STDOUT, text=True, timeout=900)
    return r.returncode, r.stdout

def classify(code, out, hang_prop="C17"):
    """-> list of (prop, sig, text) violations, or raises for harness errors. `hang_prop` = the property a
    never-returning call violates in the scenario at hand (blocking calls: C17; asks on an ending actor: C03)"""
    hang_prop = hang_prop or "C17"
    v = []
    for l in out.splitlines():
        if l.startswith("VIOLATION "):
            _, prop, sig, text = l.split(" ", 3)
            v.append((prop, sig, text))
    if "the evaluated program deadlocked" in out:
        v.append((hang_prop, "hang", "Miri reports that every thread is blocked forever: an operation never returned" + ({"C03": " (an ask on an actor that has ended waits forever)", "C14": " (actors are left waiting on each other: an ask cycle was not detected)", "C16": " (a blocking call through a type-erased handler blocks where the same call on the ActorRef returns)", "C06": " (kill() did not return while the actor was busy)"}.get(hang_prop, " (a blocking call never returned)"))))
    elif "Undefined Behavior" in out or "Data race detected" in out:
        where = "rsactor" if "/src/actor" in out or "rsactor" in out else "elsewhere"
        if where == "rsactor":
            v.append((hang_prop, "undefined-behaviour", "Miri reports undefined behaviour / a data race in rsactor code"))
        else:
            raise RuntimeError("Miri reported UB outside rsactor:\n" + out[-2000:])
    elif code != 0 and not v:
        raise RuntimeError(f"Miri run failed (exit {code}) without a verdict:\n" + out[-2500:])
    return v

def run_batch(prop, scenarios, n_runs, seed):
    prepare()
    with ck.Lock("miri-build"):
        # build once up front so that the parallel runs only interpret
        code, out = one_run("noop", 1, 1, "0.01")
        if code != 0:
            sys.stderr.write(out[-3000:])
            ck.die("Miri build / smoke run failed (does /repo still compile?)")
    jobs = []
    for i in range(n_runs):
        sc = scenarios[i % len(scenarios)]
        wseed = (seed * 1000003 + i * 7919) % (1 << 31)
        mseed = (seed + i * 101) % (1 << 31)
        # the id-allocation window is a handful of instructions: pre-empt much more often there
        rates = ["0.1", "0.3", "0.5"] if sc in ("ids", "dd_mt") else RATES
        if sc == "blocking_ask_storm":
            rates = ["0.5", "0.9", "0.3", "1.0"]
        if sc == "parked_executor":
            # the poll | park window of the executor: long uninterrupted stretches (the waker thread completes its wake-up
            # while the caller sits in the window) plus no pre-emption at all (the future itself yields in the window)
            rates = ["0.03", "0", "0.05", "0.01", "0.02", "0.2"]
        if sc == "kill_then_drop":
            # the actor task must be pre-empted in the middle of one poll of its loop
            rates = ["0.05", "0.5", "0.2", "0.01", "0.1", "0.3"]
        if sc in ("ask_vs_end", "blocking_ask_vs_end"):
            # both regimes matter here: pre-emption inside the sender's reserve | push window, and no pre-emption at
            # all (the actor replies, ends and closes its mailbox before the woken caller gets to run)
            rates = ["0", "0.01", "0", "0.2", "0", "0.05"]
        # the rate changes with every full pass over the scenario list, so every scenario meets every rate
        jobs.append((sc, wseed, mseed, rates[(i // len(scenarios)) % len(rates)]))
    results = []
    with ThreadPoolExecutor(max_workers=ck.NPROC) as ex:
        for job, (code, out) in zip(jobs, ex.map(lambda j: one_run(*j), jobs)):
            results.append((job, code, out))
    return results

def write_replay(prop, sig, job, out):
    os.makedirs(ck.REPLAYS, exist_ok=True)
    sc, wseed, mseed, rate = job
    path = os.path.join(ck.REPLAYS, f"{prop}-M-{sig}-{sc}-{wseed}-{mseed}.json")
    json.dump({"engine": "M", "property": prop, "signature": sig, "argv": [sc, str(wseed)], "miri_seed": mseed, "preemption_rate": rate, "output": out[-4000:]}, open(path, "w"), indent=1)
    return path

def summarize(prop, results):
    """-> (violations [(prop, sig, text, replay)], stats dict)"""
    viol = []
    traces = set()
    per_scenario = {}
    samples = []
    seen = set()
    for job, code, out in results:
        sc = job[0]
        per_scenario[sc] = per_scenario.get(sc, 0) + 1
        evs = [l for l in out.splitlines() if l.startswith("EV ")]
        traces.add((sc, hashlib.sha1("\n".join(evs).encode()).hexdigest()))
        if len(samples) < 3 and evs:
            samples.append({"scenario": sc, "workload_seed": job[1], "miri_seed": job[2], "preemption_rate": job[3], "observations": evs})
        try:
            vs = classify(code, out, prop if (sc == "parked_executor" and prop in ("C03", "C17")) else HANG_PROP.get(sc, "C17"))
            if sc == "parked_executor" and prop == "C03":
                # the executor is the waiting half of blocking_ask(None): a lost wake-up is an ask that never returns
                vs = [("C03" if sig == "executor-lost-wakeup" else p_, sig, text) for (p_, sig, text) in vs]
        except RuntimeError as e:
            sys.stderr.write(str(e))
            ck.die("Miri engine error")
        for (p, sig, text) in vs:
            key = (p, sig)
            if key in seen:
                continue
            seen.add(key)
            viol.append((p, sig, text, write_replay(p, sig, job, out)))
    return viol, {"runs": len(results), "distinct_observation_traces": len(traces), "per_scenario": per_scenario, "samples": samples}

def m_part(prop, tier, seed):
    """Thread-level clauses of an S-checked property (C11, C13): a few Miri executions. Returns
    (violations [(prop, sig, text, replay)], stats)."""
    n = 12 if tier == "quick" else 240
    if prop == "C13":
        n = 20 if tier == "quick" else 400
    if prop in ("C16", "C20"):
        n = 16 if tier == "quick" else 320
    if prop in ("C01", "C02", "C06"):
        n = 8 if tier == "quick" else 160
    if prop == "C03":
        n = 32 if tier == "quick" else 480
    if prop == "C06":
        # the kill-then-drop window shows in about 4 % of the executions of its scenario on a tree that has the defect
        n = 100 if tier == "quick" else 1000
    if prop in ("C14", "C15"):
        n = 24 if tier == "quick" else 480
    if prop == "C14":
        # the check-then-insert race of the detector shows in about 3 % of the executions
        n = 64 if tier == "quick" else 640
    # different properties that share a scenario explore different executions of it
    res = run_batch(prop, SCENARIOS[prop], n, seed + {"C02": 7, "C06": 13, "C15": 29}.get(prop, 0))
    viol, stats = summarize(prop, res)
    own = {"C01": ("C01", "C04", "C05", "C07"), "C02": ("C02",), "C03": ("C03",), "C06": ("C06",)}.get(prop, (prop, "C07"))
    viol = [v for v in viol if v[0] in own or (v[1] in ("hang", "undefined-behaviour") and v[0] == prop)]
    return viol, stats

def run(prop, tier, seed):
    t0 = time.time()
    n = 120 if tier == "quick" else 2400
    res = run_batch("C17", SCENARIOS["C17"], n, seed)
    viol, stats = summarize("C17", res)
    wall = time.time() - t0
    known = ck.load_known()
    reported = []
    for (p, sig, text, rp) in viol:
        k = [x for x in known if x.get("status") == "known" and x["property"] in (p, "C17") and x["signature"] == sig]
        if k:
            print(f"KNOWN-FINDING: property=C17 {sig}: {k[0].get('what', text)}")
        else:
            reported.append((p, sig, text, rp))
    hours = max(wall, 1e-9) / 3600
    ev = {
        "property_id": "C17", "tier": tier, "seed": seed, "level": "exploration",
        "coverage": {
            "evaluations": stats["runs"],
            "distinct_nontrivial": stats["distinct_observation_traces"],
            "rule": "cases = (scenario, workload seed, Miri scheduler seed, pre-emption rate) executions of the real blocking API on real threads under Miri; every execution drives threads against live, slow (gated), full-mailbox and stopped actors, so every one is non-trivial; distinct = distinct (scenario, sequence of observations: handling order, results, elapsed-vs-deadline facts, dead-letter deltas)",
            "samples": stats["samples"] or [{"note": "no observations"}],
            "runs_per_scenario": stats["per_scenario"],
            "runs_per_hour": int(stats["runs"] / hours),
            "fault_kinds": {"actor_gated_shut (never answers until released)": stats["per_scenario"].get("timeout", 0), "full_mailbox": stats["per_scenario"].get("timeout", 0), "stopped_actor": stats["per_scenario"].get("blocking", 0) + stats["per_scenario"].get("deadletters", 0), "actor_ends_while_blocking_callers_send (kill / stop / handler panic)": stats["per_scenario"].get("blocking_ask_vs_end", 0), "handler_panic (reply dropped)": stats["per_scenario"].get("deadletters", 0), "thread pre-emption at basic-block granularity, rates": RATES},
            "engine": "M (Miri)",
            "real_vs_stub": {"real": "rsactor (plain path dependency on /repo), tokio multi-thread runtime with 2 workers, std threads, helper threads and private runtimes of the timeout variants", "simulator_owned": "which thread runs next (Miri's seeded scheduler) and the clock (Miri's virtual monotonic clock)", "stubbed": "nothing"},
            "oracles": "per-thread order, at-most-once, accepted-before-stop handled, reply integrity, error kinds, dead-letter counter delta, Timeout => elapsed >= timeout (never early), timeout variants return while the actor is still gated (never hang; Miri's deadlock verdict), blocking_ask(None) racing the actor's end returns (Ok / Send / Receive; never hangs), deprecated aliases ignore their timeout, timeout variants do not panic inside a runtime",
        },
        "assumptions": ["Miri's clock charges virtual time per basic block, so only 'never early' and 'never hangs' are asserted about time; tight upper bounds are decided for the async wrappers in Engine S (C10)", "thousands, not millions, of executions"],
        "wall_s": round(wall, 2),
        "violations": len(reported),
    }
    os.makedirs(ck.EVID, exist_ok=True)
    tmp = os.path.join(ck.EVID, "C17.json.tmp")
    json.dump(ev, open(tmp, "w"), indent=1)
    os.replace(tmp, os.path.join(ck.EVID, "C17.json"))
    print(f"C17 {tier}: {stats['runs']} Miri executions ({stats['distinct_observation_traces']} distinct observation traces), wall {wall:.1f}s, seed {seed}")
    for (p, sig, text, rp) in reported:
        print(f"  {p} {sig}: {text}")
        print(f"VIOLATION property=C17 replay={rp}")
    return 1 if reported else 0

def replay(rf):
    prepare()
    code, out = one_run(rf["argv"][0], rf["argv"][1], rf["miri_seed"], rf["preemption_rate"])
    print(out[-3000:])
    try:
        vs = classify(code, out, HANG_PROP.get(rf["argv"][0], "C17"))
    except RuntimeError as e:
        print(e)
        return 2
    if any(sig == rf["signature"] for (_, sig, _) in vs):
        print(f"REPRODUCED property={rf['property']} signature={rf['signature']}")
        return 1
    print(f"NOT-REPRODUCED property={rf['property']} signature={rf['signature']}")
    return 0
