#!/usr/bin/env python3
"""Sensitivity runs: apply a patch to a scratch worktree of /repo, point a scratch copy of the
simulator at it, run the named checks there, report which ones raise an alarm, clean up.

  tools/mutant.py <name> <patch.diff> <ID>... [--tier quick|thorough] [--keep] [--base <commit>]

Nothing is written into /repo or into /verif's evidence / replays (a copy of any replay file that a
check produced is left under /tmp/rsv_mut/<name>.replays/ for inspection).
"""
import os, shutil, subprocess, sys

HERE = os.path.dirname(os.path.abspath(__file__))
VERIF = os.path.dirname(HERE)
ROOT = "/tmp/rsv_mut"

def main():
    args = [a for a in sys.argv[1:] if not a.startswith("--")]
    tier = "quick"
    if "--tier" in sys.argv:
        tier = sys.argv[sys.argv.index("--tier") + 1]
        args.remove(tier)
    keep = "--keep" in sys.argv
    base_commit = "HEAD"
    if "--base" in sys.argv:
        # apply the patch to an earlier tree of /repo (a change that cannot be rebased onto later fix: commits)
        base_commit = sys.argv[sys.argv.index("--base") + 1]
        args.remove(base_commit)
    name, patch, props = args[0], os.path.abspath(args[1]), args[2:]
    base = os.path.join(ROOT, name)
    shutil.rmtree(base, ignore_errors=True)
    os.makedirs(base)
    repo = os.path.join(base, "repo")
    subprocess.run(["git", "-C", "/repo", "worktree", "prune"], check=False)
    subprocess.run(["git", "-C", "/repo", "worktree", "add", "--detach", "-f", repo, base_commit], check=True, stdout=subprocess.DEVNULL, stderr=subprocess.DEVNULL)
    rc = 0
    try:
        r = subprocess.run(["git", "-C", repo, "apply", "--whitespace=nowarn", patch])
        if r.returncode != 0:
            print(f"MUTANT {name}: patch does not apply")
            return 2
        sim = os.path.join(base, "sim")
        subprocess.run(["rsync", "-a", "--exclude", "target", "--exclude", "rsactor_shadow", os.path.join(VERIF, "sim") + "/", sim + "/"], check=True)
        mth = os.path.join(base, "mthreads")
        if os.path.isdir(os.path.join(VERIF, "mthreads")):
            subprocess.run(["rsync", "-a", "--exclude", "target", "--exclude", "target-metrics", os.path.join(VERIF, "mthreads") + "/", mth + "/"], check=True)
        env = dict(os.environ)
        env.update({"VERIF_REPO": repo, "VERIF_SIM": sim, "VERIF_MTH": mth, "VERIF_EVID": os.path.join(base, "evidence"), "VERIF_REPLAYS": os.path.join(base, "replays"), "VERIF_WORK": os.path.join(base, "work")})
        results = {}
        for p in props:
            r = subprocess.run([os.path.join(VERIF, "check"), p, tier], env=env, stdout=subprocess.PIPE, stderr=subprocess.STDOUT, text=True)
            viol = [l for l in r.stdout.splitlines() if l.startswith("VIOLATION") or l.startswith("  C")]
            results[p] = (r.returncode, viol, r.stdout)
            tag = {0: "missed", 1: "CAUGHT", 2: "HARNESS-ERROR"}.get(r.returncode, f"exit {r.returncode}")
            print(f"MUTANT {name}: {p} {tier}: {tag}")
            for l in viol[:4]:
                print("    " + l[:260])
            if r.returncode not in (0, 1):
                print(r.stdout[-1500:])
            # a reported violation must replay: same signature again, in a fresh process, from the file alone
            if r.returncode == 1 and "--no-replay" not in sys.argv:
                rps = [l.split("replay=", 1)[1].strip() for l in r.stdout.splitlines() if l.startswith("VIOLATION") and "replay=" in l]
                if rps and rps[0] != "None" and os.path.exists(rps[0]):
                    rr = subprocess.run([os.path.join(VERIF, "check"), "replay", rps[0]], env=env, stdout=subprocess.PIPE, stderr=subprocess.STDOUT, text=True)
                    verdict = "REPRODUCED (identical history)" if "identical history" in rr.stdout else ("REPRODUCED" if "REPRODUCED" in rr.stdout and "NOT-REPRODUCED" not in rr.stdout else "NOT reproduced")
                    print(f"    replay of {os.path.basename(rps[0])}: {verdict}")
                    results[p] = (results[p][0], results[p][1] + [f"replay: {verdict}"], results[p][2])
        rp = os.path.join(base, "replays")
        if os.path.isdir(rp):
            dst = os.path.join(ROOT, name + ".replays")
            shutil.rmtree(dst, ignore_errors=True)
            shutil.copytree(rp, dst)
        import json
        summ = {p: {"exit": v[0], "verdict": {0: "missed", 1: "caught", 2: "harness-error"}.get(v[0], "other"), "lines": v[1][:4]} for p, v in results.items()}
        json.dump({"name": name, "tier": tier, "results": summ}, open(os.path.join(ROOT, name + ".result.json"), "w"), indent=1)
        rc = 0 if any(v[0] == 1 for v in results.values()) else 1
    finally:
        if not keep:
            subprocess.run(["git", "-C", "/repo", "worktree", "remove", "--force", repo], check=False, stdout=subprocess.DEVNULL, stderr=subprocess.DEVNULL)
            shutil.rmtree(base, ignore_errors=True)
            subprocess.run(["git", "-C", "/repo", "worktree", "prune"], check=False)
    return rc

if __name__ == "__main__":
    sys.exit(main())
