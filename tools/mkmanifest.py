#!/usr/bin/env python3
"""Write /verif/MANIFEST.json (kept as a script so that the per-property texts live in one place)."""
import json, os
HERE = os.path.dirname(os.path.abspath(__file__))
VERIF = os.path.dirname(HERE)

S_NOTE = ("Trusted base: tokio 1.49.0 (executed, not modelled), the Rust compiler, the harness's monitors. rsactor itself is compiled unmodified from /repo/src "
          "through a generated shadow manifest whose only difference is that `tokio` resolves to the gate-simulator crate. Interleaving atom = one poll of one task; "
          "a clean batch is evidence over the sampled schedules, scenarios and faults, not a proof.")
M_NOTE = ("Trusted base: Miri's interpreter and its seeded thread scheduler / virtual clock, tokio 1.49.0 multi-thread runtime (interpreted, not modelled). Thousands, not millions, "
          "of executions; only logical facts plus 'never early' and 'never hangs' are asserted about time.")

def S(pid, cat, text, technique, ref, thorough=True):
    d = {"property_id": pid, "quick_cmd": f"./check {pid} quick", "evidence_file": f"/verif/evidence/{pid}.json",
         "replay_cmd_template": "./check replay {path}", "engine": "gate-simulator",
         "level_claimed": {"category": cat, "text": text, "design_ref": ref}, "level_note": S_NOTE, "technique": technique}
    if thorough:
        d["thorough_cmd"] = f"./check {pid} thorough"
    return d

T = "deterministic simulation: seeded schedule search over the real rsactor+tokio under a gated spawn and a virtual clock; "
checks = [
 S("C01", "exploration", "Seeded search over sender mixes, capacities, handler durations, clone/drop histories and stop / last-drop endings under many schedules; every message carries a unique id and the history monitor checks at-most-once, rejected-never and accepted-before-stop/last-drop-handled-before-on_stop. Exploration is the right level: the property quantifies over schedules and histories, which are sampled, not enumerated. A few executions of async clients on a real 2-worker runtime under Miri's seeded thread scheduler cover thread interleavings inside what the gate simulator treats as one poll.", T + "unique message ids + history monitor (exactly-once / rejected-never)", "DESIGN.md 5 C01"),
 S("C02", "exploration", "Real-time-order monitor: whenever one send finished before another began (any tasks), handling order must agree; nothing sent after stop() returned is ever handled; everything accepted before stop() was called is handled before on_stop. Capacity-1/2 mailboxes with queued senders are generated on purpose. (+ a few multi-thread executions under Miri, as for C01.)", T + "invoke/return vs handler-entry ordering monitor", "DESIGN.md 5 C02"),
 S("C03", "exploration", "Replies carry a per-run unique nonce produced inside the handler; an Ok reply must be the nonce its own handler produced before the return; ask_join outputs / join errors are compared with the scripted task. 'Never hangs' is decided at exact global quiescence (nothing runnable, no timer): no ask may be pending on an ended actor, every ask after the end fails.", T + "reply-nonce matching + pending-operation check at exact quiescence", "DESIGN.md 5 C03"),
 S("C04", "fault_enumeration", "A termination-cause x arrival-phase x racing-cause grid (216 cells, every cell visited in each tier) plus random fault profiles; a per-actor lifecycle automaton over the hook events decides order, at-most-once on_stop, no on_stop after panic / failed start, on_stop exactly when the actor ends otherwise, and the killed flag iff a kill was consumed.", T + "cause x phase grid enumeration + per-actor lifecycle automaton", "DESIGN.md 5 C04"),
 S("C05", "fault_enumeration", "Expected JoinHandle value computed from the hook trace (variant, phase, killed, the very error code, journal of every hook that ran) for every cell of the cause x phase grid and random hook-outcome combinations; query methods and consuming conversions compared with the variant's fields on every result, and exhaustively over the finite value space of ActorResult (a table, labelled as such in the evidence).", T + "hook-trace oracle for ActorResult + exhaustive accessor table", "DESIGN.md 5 C05"),
 S("C06", "exploration", "Backlogs of 0..capacity+2 messages at the moment of the kill in every actor phase, repeated kills, kills on dead actors, kill racing stop/drop: kill() must return Ok synchronously, at most one further handler may start, on_stop(killed=true) must follow, leftovers are never handled and their asks fail; on_stop(killed=true) must begin at the virtual instant the hook in progress finished. (+ a few multi-thread executions under Miri, as for C01.)", T + "handler-entries-after-kill counter and leftover/ask fate monitor", "DESIGN.md 5 C06"),
 S("C07", "exploration", "A handle-table model (clone/drop/downgrade/upgrade/erase/as_control/self-clone histories) decides at exact quiescence whether a strong reference remains: unreferenced or stopped actors must have ended via on_stop(killed=false) with all accepted work done; referenced, never-stopped actors must still be running and must answer a probe ask issued after quiescence (including after on_run returned Ok(false)).", T + "handle-table reference model + quiescence + post-quiescence probe", "DESIGN.md 5 C07"),
 S("C08", "exploration", "on_run scripts with known await boundaries and messages arriving before/at/after each boundary (incl. >128-message bursts): no on_run body step may execute while a definitely accepted message or a returned kill is waiting, never after Ok(false), again after Ok(true), and Err leads to on_stop(killed=false) and a failed result.", T + "poll-probe inside scripted on_run vs definite mailbox content", "DESIGN.md 5 C08"),
 S("C09", "exploration", "Occupancy bounds from definite accept/take events (incl. queued stop markers) against the capacity; with a stalled actor exactly `capacity` sends complete and the rest wait; a send with a provably free slot and no other waiter must complete in its first poll; capacity 0 panics with the documented message. The process-wide default (once, non-zero, else 32) is checked by fresh-subprocess configurations.", T + "occupancy monitor + first-poll completion + subprocess configurations", "DESIGN.md 5 C09"),
 S("C10", "exploration", "Virtual clock: natural completion placed before / at / after / never relative to the deadline with free, full and closed mailboxes and actors dying first; Err(Timeout) never before the deadline and at most one timer tick after it, Ok never after it, Timeout iff the operation had not completed, non-timeout failures reported at the instant the actor ended, is_retryable only for Timeout.", T + "exact virtual-time comparison of return instant, deadline and natural completion", "DESIGN.md 5 C10"),
 S("C11", "exploration", "Derivation walks over every kind of handle with identity / is_alive / upgrade samples at every point of the lifecycle; ids are checked pairwise distinct per process; is_alive true before the actor begins to end and false after its JoinHandle resolved; upgrade Some while a strong handle exists, None once none exists and the actor ended. (Thread-parallel id allocation is decided by the Miri engine under C17's scenarios `ids`.)", T + "handle-derivation walks with identity/liveness oracles (+ Miri for parallel spawns)", "DESIGN.md 5 C11"),
 S("C12", "fault_enumeration", "For each base multi-actor scenario every crash point (panic at begin/end and error in on_start, on_stop, every on_run invocation, every message handler of every actor) is injected in turn, each under several schedules, in a build with test-utils and deadlock-detection; every monitor of every other property must keep holding for the survivors, the victim must report the panic/failure, and global state (ids, dead-letter counter, wait-for graph and its lock) must stay usable.", T + "crash-point enumeration over hook invocations x schedules, all monitors as oracle", "DESIGN.md 5 C12"),
 S("C13", "exploration", "An in-process tracing subscriber attributes every dead-letter event to the operation being polled: each failed tell/ask-family operation must record exactly one, in the poll in which it returns, naming the target, message type, operation family and the reason matching the error; successes, stop/kill and cancelled operations record none; with test-utils the counter delta equals the number of failures. (Counter under real threads: Miri engine, scenario `deadletters`.)", T + "tracing capture with per-poll attribution + counter delta", "DESIGN.md 5 C13"),
 S("C14", "exploration", "Generated cycles that must close in every schedule (length 1-5; handler chains, on_start/on_run/on_stop-headed chains, on_start and on_stop rings; ask / ask_with_timeout / erased ask per edge) must end in a deadlock panic naming a rotation of the cycle, with nobody left waiting; racy families must never hang: at exact quiescence no cycle of pending directly-awaited asks may exist.", T + "forced-cycle families + wait-cycle check at exact quiescence", "DESIGN.md 5 C14"),
 S("C15", "exploration", "Every deadlock panic is justified against the history (a chain of asks that are in flight, unanswered and whose callee is alive must lead back to the asker), over statically cyclic but temporally acyclic ask patterns ending by reply, timeout, cancellation, callee panic and kill; the wait-for graph (read through the --cfg rsactor_verif hook) must hold exactly the in-flight actor asks at quiescence and never a non-actor caller. This check found the stale-edge defect fixed in /repo commit 80b4e6f.", T + "panic-justification oracle over the history + wait-for graph snapshots", "DESIGN.md 5 C15, 6"),
 S("C16", "exploration", "Each scenario is executed on direct references and again with every operation routed through an arbitrarily chosen type-erased wrapper (all From impls, clone_boxed, downgrade/upgrade, as_control) under the same decision list; histories must be identical event by event while the ready sets agree, and every monitor must hold on the erased run.", T + "lock-step differential replay direct vs erased + all monitors on the erased run", "DESIGN.md 5 C16"),
 S("C18", "exploration", "The default-feature build records decisions and canonical per-event hashes; every other feature build (quick: each single feature and all four; thorough: all 15 non-empty subsets) replays the same decisions on the same scenario and must produce the same history while the ready sets agree; every monitor runs in every build. Scenarios have an acyclic static ask graph by construction.", T + "lock-step differential replay across feature builds + monitors in each build", "DESIGN.md 5 C18"),
 S("C20", "exploration", "In a metrics build, readers sample through strong, cloned and weak-upgraded handles at arbitrary steps: message_count monotone and between completed and entered handlers, equal to entered handlers whenever no handler is running, avg <= max then, snapshot == accessors within one poll, values stable after the actor ended; max_processing_time >= the longest real spin a handler demonstrably performed (nested real-time intervals, so it cannot flake).", T + "metrics samples vs handler-entry counts from the history", "DESIGN.md 5 C20"),
]

manifest = {
 "version": 1,
 "setup_cmd": "./check setup",
 "hooks": {
   "guard": "--cfg rsactor_verif",
   "enable": "rustflags in /verif/sim/.cargo/config.toml (and /verif/mthreads/.cargo/config.toml); every ./check command builds /repo's working tree with it",
   "baseline_off_cmd": "cd /repo && cargo nextest run --workspace --no-fail-fast --offline || cargo test --workspace --no-fail-fast --offline",
   "source_commits": ["2663859"],
   "add_only": True,
 },
 "engines": [
   {"name": "gate-simulator", "path": "/verif/sim", "serves_properties": [c["property_id"] for c in checks], "kind_free_text": "deterministic simulation: real rsactor + real tokio 1.49 on a paused current-thread runtime; a crate named `tokio` re-exports tokio with a gated spawn so that a seeded scheduler decides every poll; virtual clock; history monitors; minimised replay files"},
 ],
 "checks": checks,
 "not_applicable": [
   {"property_id": "C19", "reason": "quantifies over programs accepted by the proc-macros and states what their expansion means: a pure compile-time function of the token stream with no schedule, clock, fault or interleaving in it - not a simulation target (DESIGN.md section 5 C19); its one runtime clause (on_tell_result after tell, never after ask) is observed as a probe in every run"},
 ],
 "notes": "Known findings: known_findings.jsonl (one entry, status fixed: C15 stale wait-for edge, /repo commit 80b4e6f). Own sensitivity mutants: /verif/mutants; independent seeded changes: /verif/seeded.",
}
if os.path.isdir(os.path.join(VERIF, "mthreads")) and os.path.exists(os.path.join(VERIF, "tools", "miri_engine.py")):
    manifest["engines"].append({"name": "miri-threads", "path": "/verif/mthreads", "serves_properties": ["C17"], "kind_free_text": "deterministic simulation of real OS threads: rsactor + tokio multi-thread runtime + blocking API interpreted by Miri, whose seeded scheduler and virtual clock make one seed one repeatable execution"})
    manifest["checks"].append({
        "property_id": "C17", "quick_cmd": "./check C17 quick", "thorough_cmd": "./check C17 thorough", "evidence_file": "/verif/evidence/C17.json",
        "replay_cmd_template": "./check replay {path}", "engine": "miri-threads",
        "level_claimed": {"category": "exploration", "text": "Plain threads, a spawn_blocking caller and an async client drive blocking_tell/blocking_ask (with and without timeout, deprecated aliases) against live, slow (gated), full-mailbox and stopped actors under Miri's seeded thread scheduler: per-thread order, at-most-once, reply integrity, error kinds, dead-letter counter, 'timeout variants return (never hang) and never early', aliases ignore their timeout, timeout variants callable inside a runtime. Parallel id allocation (C11) and the dead-letter counter under threads (C13) are decided by the same engine.", "design_ref": "DESIGN.md 3, 5 C17"},
        "level_note": M_NOTE,
        "technique": "deterministic simulation of OS threads: Miri as seeded thread scheduler with virtual clock over the real blocking API",
    })
else:
    manifest["not_applicable"].append({"property_id": "C17", "reason": "pending: Miri thread engine not built yet (DESIGN.md section 3)"})
json.dump(manifest, open(os.path.join(VERIF, "MANIFEST.json"), "w"), indent=1)
print("wrote MANIFEST.json with", len(manifest["checks"]), "checks")
