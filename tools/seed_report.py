#!/usr/bin/env python3
"""Print the catch matrix of the independently seeded changes (markdown)."""
import json, os
root = "/verif/seeded"
rows = []
for name in sorted(os.listdir(root)):
    mp = os.path.join(root, name, "meta.json")
    if not os.path.exists(mp):
        continue
    m = json.load(open(mp))
    checks = m.get("checks", {})
    caught = [k for k, v in checks.items() if v["verdict"] == "caught"]
    missed = [k for k, v in checks.items() if v["verdict"] == "missed"]
    other = [k for k, v in checks.items() if v["verdict"] not in ("caught", "missed")]
    sigs = []
    for k, v in checks.items():
        for l in v.get("lines", []):
            l = l.strip()
            if l.startswith("C") and ":" in l:
                sigs.append(l.split(":")[0])
    summ = (m.get("summary") or "").replace("\n", " ")
    rows.append((name, m.get("breaks_property"), summ[:150], ", ".join(caught) or "-", ", ".join(missed) or "-", "; ".join(sorted(set(sigs)))[:120], m.get("note", "")))
print("| seed | property | change (abridged) | caught by | run but missed | signatures | note |")
print("|---|---|---|---|---|---|---|")
for r in rows:
    print("| " + " | ".join(str(x) for x in r) + " |")
