#!/usr/bin/env python3
"""Sensitivity regression: re-run, against the machinery as it is now, every own mutant and every seeded change
with the checks that caught it before (tools/revalidate.py [--only-mutants|--only-seeds] [names...]). Updates
mutants/results.json and seeded/*/meta.json; prints one line per (change, check)."""
import glob, json, os, subprocess, sys, time
V = os.path.dirname(os.path.dirname(os.path.abspath(__file__)))
NEW = {"revert_fix_c03_late_push": ["C03"], "revert_fix_c06_kill_then_drop": ["C06"], "revert_fix_c17_blocking_late_push": ["C17"], "dd_check_then_insert_two_locks": ["C14"]}
names = [a for a in sys.argv[1:] if not a.startswith("--")]
lost = []
if "--only-seeds" not in sys.argv:
    rp = os.path.join(V, "mutants", "results.json")
    res = json.load(open(rp))
    for f in sorted(glob.glob(os.path.join(V, "mutants", "*.diff"))):
        m = os.path.basename(f)[:-5]
        if names and m not in names:
            continue
        props = [p for p, v in res.get(m, {}).items() if v["verdict"] == "caught"] or NEW.get(m, [])
        if not props:
            continue
        subprocess.run([os.path.join(V, "tools", "mutant.py"), m, f] + props, stdout=subprocess.DEVNULL, stderr=subprocess.DEVNULL)
        out = json.load(open(f"/tmp/rsv_mut/{m}.result.json"))
        for p, v in out["results"].items():
            sig = " ".join(v["lines"][0].split()[:2]).rstrip(":") if v["lines"] else ""
            res.setdefault(m, {})[p] = {"verdict": v["verdict"], "sig": sig if v["verdict"] == "caught" else ""}
            print(f"mutant {m} {p}: {v['verdict']} {sig}", flush=True)
            if v["verdict"] != "caught":
                lost.append(("mutant", m, p))
        json.dump(res, open(rp, "w"), indent=1)
if "--only-mutants" not in sys.argv:
    for d in sorted(glob.glob(os.path.join(V, "seeded", "*"))):
        n = os.path.basename(d)
        if names and n not in names:
            continue
        meta = json.load(open(os.path.join(d, "meta.json")))
        props = sorted({k.split(":")[0] for k, v in meta.get("checks", {}).items() if v["verdict"] == "caught"})
        if not props or meta.get("revalidate") is False:
            continue
        subprocess.run([os.path.join(V, "tools", "seed_check.py"), n] + props, stdout=subprocess.DEVNULL, stderr=subprocess.DEVNULL)
        meta = json.load(open(os.path.join(d, "meta.json")))
        for p in props:
            v = meta["checks"].get(f"{p}:quick", {})
            print(f"seed {n} {p}: {v.get('verdict')} {(v.get('lines') or [''])[0][:120]}", flush=True)
            if v.get("verdict") != "caught":
                lost.append(("seed", n, p))
print("LOST:", lost)
