"""C18: lock-step differential replay across feature builds.

The default-feature build records (decision list, ready-set hashes, canonical per-event hashes) for
every (scenario, schedule); each other feature build replays the decision list on the same scenario
and compares event by event. A difference that appears while the ready sets of the two runs still
agree is a violation; if the ready sets diverge first the pair is incomparable (counted, never a
violation). Every monitor also runs inside every feature build.
"""
import importlib.machinery, importlib.util, json, os, shutil, subprocess, sys, time

HERE = os.path.dirname(os.path.abspath(__file__))
_loader = importlib.machinery.SourceFileLoader("check_driver", os.path.join(os.path.dirname(HERE), "check"))
_spec = importlib.util.spec_from_loader("check_driver", _loader)
ck = importlib.util.module_from_spec(_spec)
_loader.exec_module(ck)

def feature_sets(tier):
    if tier == "quick":
        return [["tracing"], ["metrics"], ["test-utils"], ["deadlock-detection"], list(ck.ORDER)]
    return [s for s in ck.all_subsets() if s]

def run_pairs(default_bin, feat_bin, prop, tier, seed, outdir, tag, pairs, extra=None):
    procs = []
    for i in range(pairs):
        out = os.path.join(outdir, f"{tag}-w{i}.json")
        rec_cmd = [default_bin, "record", "--prop", prop, "--tier", tier, "--seed", str(seed)] + (extra if extra else ["--shard", str(i), "--nshards", str(pairs)])
        cmp_cmd = [feat_bin, "compare", "--prop", prop, "--tier", tier, "--seed", str(seed), "--out", out, "--replay-dir", ck.REPLAYS]
        rec = subprocess.Popen(rec_cmd, cwd=ck.SIM, env=ck.env(), stdout=subprocess.PIPE, stderr=subprocess.PIPE)
        cmp_ = subprocess.Popen(cmp_cmd, cwd=ck.SIM, env=ck.env(), stdin=rec.stdout, stdout=subprocess.PIPE, stderr=subprocess.PIPE, text=True)
        rec.stdout.close()
        procs.append((rec, cmp_, out))
    stats = []
    for rec, cmp_, out in procs:
        so, se = cmp_.communicate()
        rec.wait()
        rerr = rec.stderr.read().decode(errors="replace")
        if cmp_.returncode not in (0, 1) or not os.path.exists(out) or "HARNESS PANIC" in se or "HARNESS PANIC" in rerr:
            sys.stderr.write(se[-3000:] + rerr[-3000:])
            ck.die(f"C18 worker crashed (compare exit {cmp_.returncode}, record exit {rec.returncode})")
        stats.append(json.load(open(out)))
    return stats

def run_c18(tier, seed):
    t0 = time.time()
    sets = feature_sets(tier)
    default_bin = ck.build([])
    bins = [(ck.build_name(s), ck.build(s)) for s in sets]
    build_s = time.time() - t0
    os.makedirs(ck.WORK, exist_ok=True)
    os.makedirs(ck.REPLAYS, exist_ok=True)
    outdir = os.path.join(ck.WORK, f"C18-{tier}-{os.getpid()}")
    shutil.rmtree(outdir, ignore_errors=True)
    os.makedirs(outdir)
    pairs = max(1, ck.NPROC // 2)
    all_stats = []
    per_build = {}
    for name, b in bins:
        stats = run_pairs(default_bin, b, "C18", tier, seed, outdir, name, pairs)
        per_build[name] = {
            "runs": sum(s["evaluations"] for s in stats),
            "identical": sum(s["extra"].get("pairs_identical", 0) for s in stats),
            "incomparable": sum(s["extra"].get("pairs_incomparable", 0) for s in stats),
            "inconclusive": sum(s["inconclusive"] for s in stats),
        }
        all_stats += stats
    shutil.rmtree(outdir, ignore_errors=True)
    m = ck.merge_stats(all_stats)
    m["extra"]["per_feature_build"] = per_build
    ck.RULES["C18"] = ("cases = (scenario, schedule, feature subset) triples: scenarios from the messaging / lifecycle profiles (their static ask graph is acyclic by construction, no metrics reads), "
                       "recorded on the default-feature build and replayed decision by decision on each feature build; compared event by event (client results with virtual instants, hook sequences, "
                       "final results, dead letters; actor ids normalised). non-trivial = the pair was comparable to the end or differed while the ready sets agreed. "
                       "distinct = distinct (decision list, event-order fingerprint) per feature build run.")
    wall = time.time() - t0
    return ck.finish("C18", tier, seed, m, wall, build_s, ["default"] + [n for n, _ in bins], "S")

def replay_c18(rf, path):
    """Re-run one recorded pair: the default build records run `run_index`, the feature build compares."""
    default_bin = ck.build([])
    feat_bin = ck.build(rf.get("features", []))
    i = rf["run_index"]
    outdir = os.path.join(ck.WORK, f"C18-replay-{os.getpid()}")
    os.makedirs(outdir, exist_ok=True)
    stats = run_pairs(default_bin, feat_bin, "C18", "quick", rf["seed"], outdir, "replay", 1, extra=["--scenarios", str(i + 1), "--shard", str(i), "--nshards", str(1 << 40)])
    shutil.rmtree(outdir, ignore_errors=True)
    hit = [v for s in stats for v in s.get("violations", []) if v["violation"]["sig"] == rf["signature"]]
    if hit:
        print(f"REPRODUCED property=C18 signature={rf['signature']}: {hit[0]['violation']['text']}")
        return 1
    print(f"NOT-REPRODUCED property=C18 signature={rf['signature']}")
    return 0
