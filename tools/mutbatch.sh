#!/bin/bash
# usage: tools/mutbatch.sh <logfile> "<mutant> <ID>..." ...   (runs in the background, sequentially)
log=$1; shift
( for spec in "$@"; do set -- $spec; m=$1; shift; /verif/tools/mutant.py $m /verif/mutants/$m.diff "$@"; done > $log 2>&1 ) &
disown
