#!/usr/bin/env python3
"""Exploration beyond the registered tiers: N executions of every Engine-M scenario on /repo's working tree, with seeds
disjoint from the quick / thorough tiers. tools/miri_campaign.py <N per scenario> [seed base] [scenario...]
Prints one line per scenario and every violation with its replay file (under /verif/replays)."""
import os, sys, time
sys.path.insert(0, os.path.dirname(os.path.abspath(__file__)))
import miri_engine as me
n = int(sys.argv[1]) if len(sys.argv) > 1 else 500
base = int(sys.argv[2]) if len(sys.argv) > 2 else 777000
scs = sys.argv[3:] or ["ids", "blocking", "timeout", "contended", "in_runtime", "deadletters", "async_mt", "ask_vs_end", "blocking_ask_vs_end", "kill_then_drop", "end_vs_observers", "dd_mt", "erased_blocking"]
total = 0
for k, sc in enumerate(scs):
    t0 = time.time()
    res = me.run_batch("CAMPAIGN", [sc], n, base + k * 1000)
    viol, stats = me.summarize("CAMPAIGN", res)
    total += len(res)
    print(f"{sc}: {len(res)} executions, {stats['distinct_observation_traces']} distinct observation traces, {len(viol)} violation signatures, {time.time()-t0:.0f}s", flush=True)
    for (p, sig, text, rp) in viol:
        print(f"  {p} {sig}: {text[:200]}  replay={rp}", flush=True)
print("total executions", total)
