#!/bin/bash
# usage: tools/seed_pipeline.sh "<name> <ID>..." ...  - confirm (if not yet confirmed) then run the named checks, sequentially, in the background
( for spec in "$@"; do set -- $spec; n=$1; shift
    if [ ! -f /verif/seeded/$n/meta.json ]; then python3 /verif/tools/seed_confirm.py $n > /tmp/confirm_$n.log 2>&1; fi
    if [ -f /verif/seeded/$n/meta.json ]; then /verif/tools/seed_check.py $n "$@" > /tmp/seedchk_$n.log 2>&1; fi
  done ) > /dev/null 2>&1 &
disown
