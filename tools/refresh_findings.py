#!/usr/bin/env python3
"""Re-record the Engine-M replay files of the repaired findings with the mthreads binary as it is now (an Engine-M
replay is pinned to (tree, mthreads source): adding a scenario shifts Miri's execution). For each finding: worktree of
the commit before the repair, executions of the dedicated scenario until the signature shows, replay once more to make
sure, write /verif/findings/<name>.replay.json. Worktrees are removed afterwards."""
import json, os, shutil, subprocess, sys
sys.path.insert(0, os.path.dirname(os.path.abspath(__file__)))
FIND = [("C03", "hang", "ask_vs_end", "edf26c7", "C03-M-hang-ask-vs-late-push"),
        ("C17", "hang", "blocking_ask_vs_end", "fbc99f1", "C17-M-hang-blocking-ask-vs-late-push"),
        ("C06", "kill-not-reported", "kill_then_drop", "00c33fa", "C06-M-kill-then-drop-not-reported")]
head = subprocess.run(["git", "-C", "/verif", "rev-parse", "--short", "HEAD"], stdout=subprocess.PIPE, text=True).stdout.strip()
for prop, sig, sc, base, name in FIND:
    wt = f"/tmp/refind/{base}"
    shutil.rmtree(wt, ignore_errors=True)
    os.makedirs("/tmp/refind", exist_ok=True)
    subprocess.run(["git", "-C", "/repo", "worktree", "add", "--detach", "-f", wt, base], check=True, stdout=subprocess.DEVNULL, stderr=subprocess.DEVNULL)
    try:
        os.environ["VERIF_REPO"] = wt
        for m in [k for k in list(sys.modules) if k in ("miri_engine", "check_driver")]:
            del sys.modules[m]
        import miri_engine as me
        found = None
        for rnd in range(12):
            res = me.run_batch(prop, [sc], 64, 1000 + rnd)
            for job, code, out in res:
                try:
                    vs = me.classify(code, out, me.HANG_PROP.get(sc, "C17") if prop != "C17" else "C17")
                except RuntimeError:
                    continue
                if any(p == prop and s == sig for (p, s, _) in vs):
                    found = job
                    break
            if found:
                break
        if not found:
            print(f"{name}: NOT FOUND")
            continue
        code, out = me.one_run(*found)
        ok = any(p == prop and s == sig for (p, s, _) in me.classify(code, out, prop if sig == "hang" else "C17"))
        rf = {"engine": "M", "property": prop, "signature": sig, "argv": [found[0], str(found[1])], "miri_seed": found[2], "preemption_rate": found[3], "recorded_on": base, "mthreads_source_of_verif_commit": head,
              "note": f"Engine M replay: reproduces on the tree named in recorded_on (git -C /repo worktree add <dir> {base}; VERIF_REPO=<dir> ./check replay <this file>) with the mthreads source of /verif commit {head} or any later commit that did not touch mthreads/src; on the repaired tree it prints NOT-REPRODUCED"}
        json.dump(rf, open(f"/verif/findings/{name}.replay.json", "w"), indent=1)
        print(f"{name}: {found} replays={ok}")
    finally:
        subprocess.run(["git", "-C", "/repo", "worktree", "remove", "--force", wt], stdout=subprocess.DEVNULL, stderr=subprocess.DEVNULL)
        shutil.rmtree(wt, ignore_errors=True)
os.environ.pop("VERIF_REPO", None)
