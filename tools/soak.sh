#!/bin/bash
# run every quick check under several seeds; any VIOLATION / non-zero exit on the unchanged tree is a false alarm to triage
cd "$(dirname "$0")/.."
for seed in "$@"; do
  for p in C01 C02 C03 C04 C05 C06 C07 C08 C09 C10 C11 C12 C13 C14 C15 C16 C18 C20; do
    out=$(VERIF_SEED=$seed VERIF_SKIP_MIRI=1 ./check $p quick 2>&1); code=$?
    echo "seed=$seed $p exit=$code $(echo "$out" | grep -E 'quick:' | sed 's/.*quick: //' | cut -c1-90)"
    if [ $code -ne 0 ]; then echo "$out" | grep -E "VIOLATION|HARNESS|^  C" | head -5; fi
  done
done
