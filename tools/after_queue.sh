#!/bin/bash
# usage: tools/after_queue.sh <logfile> <command...>  - run a command once no seed confirmation / check is running any more
log=$1; shift
( sleep 5; while pgrep -f 'seed_confirm[.]py|seed_check[.]py|tools/seed_queue[.]sh|tools/seed_pipeline[.]sh' > /dev/null; do sleep 30; done; "$@" > $log 2>&1 ) > /dev/null 2>&1 &
disown
