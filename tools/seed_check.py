#!/usr/bin/env python3
"""Run checks against a confirmed seeded change and record the outcome in its meta.json:
   tools/seed_check.py <name> <ID>... [--tier quick|thorough]"""
import json, os, subprocess, sys
name = sys.argv[1]
rest = sys.argv[2:]
dst = f"/verif/seeded/{name}"
meta0 = json.load(open(os.path.join(dst, "meta.json")))
# a change that could not be rebased onto later fix: commits is applied to the tree it was written for
base = ["--base", meta0["base_commit"]] if meta0.get("base_commit") else []
r = subprocess.run([os.path.join(os.path.dirname(os.path.abspath(__file__)), "mutant.py"), "seed_" + name, os.path.join(dst, "patch.diff")] + rest + base)
res = json.load(open(f"/tmp/rsv_mut/seed_{name}.result.json"))
meta = json.load(open(os.path.join(dst, "meta.json")))
meta.setdefault("checks", {})
for p, v in res["results"].items():
    meta["checks"][f"{p}:{res['tier']}"] = {"verdict": v["verdict"], "lines": v["lines"]}
json.dump(meta, open(os.path.join(dst, "meta.json"), "w"), indent=1)
print(json.dumps(meta["checks"], indent=1))
