//! Mechanism behind the C03 finding, at the tokio level (no rsactor code involved): `Sender::send`
//! is `reserve().await` followed by `Permit::send`. If the receiver is closed and dropped between
//! the two halves - which only another thread can do - the value is pushed into a channel that
//! nobody will ever drain. rsactor's envelope holds a strong `ActorRef`, i.e. a `Sender` of that very
//! channel, so the channel (and the reply `oneshot::Sender` inside the envelope) is never freed and
//! the asker waits forever.
use std::time::Duration;
use tokio::sync::{mpsc, oneshot};

struct Envelope {
    _reply: oneshot::Sender<u32>,
    _self_ref: mpsc::Sender<Envelope>, // what `actor_ref: self.clone()` amounts to
}

#[tokio::test]
async fn value_pushed_after_receiver_drop_keeps_reply_channel_open_forever() {
    let (tx, mut rx) = mpsc::channel::<Envelope>(4);
    let (reply_tx, reply_rx) = oneshot::channel::<u32>();
    // first half of `send`: the slot is reserved
    let permit = tx.reserve().await.unwrap();
    // the actor ends on another thread: close + drop (drop drains what is queued - nothing yet)
    rx.close();
    drop(rx);
    // second half of `send`: the envelope is pushed although nobody will ever receive it
    permit.send(Envelope { _reply: reply_tx, _self_ref: tx.clone() });
    drop(tx);
    // the asker now waits for its reply: the oneshot is neither answered nor closed
    let r = tokio::time::timeout(Duration::from_millis(200), reply_rx).await;
    assert!(r.is_err(), "expected the reply channel to stay open forever (it is kept alive by the self-referential envelope), got {r:?}");
}

#[tokio::test]
async fn draining_until_none_after_close_receives_the_late_value() {
    let (tx, mut rx) = mpsc::channel::<Envelope>(4);
    let (reply_tx, reply_rx) = oneshot::channel::<u32>();
    let permit = tx.reserve().await.unwrap();
    rx.close();
    // documented tokio idiom: after close(), recv() returns None only once every permit is released
    let drain = tokio::spawn(async move { while rx.recv().await.is_some() {} });
    tokio::task::yield_now().await;
    permit.send(Envelope { _reply: reply_tx, _self_ref: tx.clone() });
    drop(tx);
    drain.await.unwrap();
    let r = tokio::time::timeout(Duration::from_millis(200), reply_rx).await;
    assert!(matches!(r, Ok(Err(_))), "the drained envelope drops its reply sender: the asker gets an error, got {r:?}");
}
