#![cfg(feature = "deadlock-detection")]
use rsactor::{spawn, Actor, ActorRef, Message};
use std::time::Duration;
struct P;
impl Actor for P { type Args = (); type Error = String; async fn on_start(_: (), _: &ActorRef<Self>) -> Result<Self, String> { Ok(P) } }
struct Ping; struct Busy; struct AskPeer(ActorRef<P>);
impl Message<Ping> for P { type Reply = u8; async fn handle(&mut self, _: Ping, _: &ActorRef<Self>) -> u8 { 1 } }
impl Message<Busy> for P { type Reply = (); async fn handle(&mut self, _: Busy, _: &ActorRef<Self>) { tokio::time::sleep(Duration::from_millis(30)).await; } }
impl Message<AskPeer> for P { type Reply = u8; async fn handle(&mut self, m: AskPeer, _: &ActorRef<Self>) -> u8 { m.0.ask(Ping).await.unwrap_or(0) } }
#[tokio::test]
async fn answered_ask_must_not_count_as_waiting() {
    let (a, ja) = spawn::<P>(()); let (b, jb) = spawn::<P>(());
    b.tell(Busy).await.unwrap();                    // B is busy for 30 ms; its mailbox fills behind it
    a.tell(AskPeer(b.clone())).await.unwrap();      // A asks B: Ping is queued in B
    tokio::time::sleep(Duration::from_millis(10)).await;
    b.tell(AskPeer(a.clone())).await.unwrap();      // queued behind Ping: B answers A, then asks A
    tokio::time::sleep(Duration::from_millis(100)).await;
    a.stop().await.unwrap(); b.stop().await.unwrap(); drop((a, b));
    assert!(ja.await.is_ok(), "A panicked"); assert!(jb.await.is_ok(), "B panicked: false deadlock");
}
