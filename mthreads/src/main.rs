//! Engine M scenarios: the real rsactor, the real tokio multi-thread runtime and real std threads,
//! interpreted by Miri. Miri's scheduler (seeded by -Zmiri-seed, pre-empting at basic-block
//! granularity) decides every thread interleaving and its clock is virtual, so one seed is one
//! exactly repeatable execution. Scenario and workload seed come from argv (never from the
//! environment). Output: lines "EV ..." (observations), then "OK" or "VIOLATION <prop> <sig> <text>".
use rsactor::{message_handlers, spawn, spawn_with_mailbox_capacity, Actor, ActorRef, ActorWeak, Error};
use std::sync::atomic::{AtomicU64, Ordering};
use std::sync::{Arc, Mutex};
use std::time::{Duration, Instant};

struct Rng(u64);
impl Rng {
    fn next(&mut self) -> u64 {
        self.0 = self.0.wrapping_add(0x9E37_79B9_7F4A_7C15);
        let mut z = self.0;
        z = (z ^ (z >> 30)).wrapping_mul(0xBF58_476D_1CE4_E5B9);
        z = (z ^ (z >> 27)).wrapping_mul(0x94D0_49BB_1331_11EB);
        z ^ (z >> 31)
    }
    fn below(&mut self, n: u64) -> u64 {
        self.next() % n.max(1)
    }
}

/// what the actor observed, in order
#[derive(Default)]
struct Journal {
    handled: Vec<u64>,
    /// handlers entered (before any gate)
    entered: u64,
    stopped: bool,
}

struct Worker {
    journal: Arc<Mutex<Journal>>,
    gate: Option<Arc<tokio::sync::Semaphore>>,
    nonce: u64,
}

struct Init {
    journal: Arc<Mutex<Journal>>,
    gate: Option<Arc<tokio::sync::Semaphore>>,
}

impl Actor for Worker {
    type Args = Init;
    type Error = String;
    async fn on_start(a: Init, _r: &ActorRef<Self>) -> Result<Self, String> {
        Ok(Worker { journal: a.journal, gate: a.gate, nonce: 1 })
    }
    async fn on_stop(&mut self, _w: &ActorWeak<Self>, _killed: bool) -> Result<(), String> {
        self.journal.lock().unwrap().stopped = true;
        Ok(())
    }
}

/// id, and whether the handler has to pass the gate first
struct Job(u64, bool);
#[derive(Debug, PartialEq, Clone, Copy)]
struct Receipt {
    id: u64,
    nonce: u64,
}
/// a message whose reply is dropped: the handler panics
struct Poison(u64);

#[message_handlers]
impl Worker {
    #[handler]
    async fn job(&mut self, j: Job, _r: &ActorRef<Self>) -> Receipt {
        self.journal.lock().unwrap().entered += 1;
        if j.1 {
            if let Some(g) = &self.gate {
                let p = g.acquire().await.expect("gate closed");
                p.forget();
            }
        }
        self.nonce = self.nonce.wrapping_mul(6364136223846793005).wrapping_add(j.0);
        self.journal.lock().unwrap().handled.push(j.0);
        Receipt { id: j.0, nonce: self.nonce }
    }
    #[handler]
    async fn poison(&mut self, p: Poison, _r: &ActorRef<Self>) -> u64 {
        panic!("scripted poison {}", p.0);
    }
}

static VIOLATIONS: AtomicU64 = AtomicU64::new(0);
fn violation(prop: &str, sig: &str, text: String) {
    VIOLATIONS.fetch_add(1, Ordering::SeqCst);
    println!("VIOLATION {prop} {sig} {text}");
}
fn ev(s: String) {
    println!("EV {s}");
}

fn err_kind(e: &Error) -> &'static str {
    match e {
        Error::Send { .. } => "Send",
        Error::Receive { .. } => "Receive",
        Error::Timeout { .. } => "Timeout",
        Error::Join { .. } => "Join",
        Error::Downcast { .. } => "Downcast",
        _ => "Other",
    }
}

fn rt() -> tokio::runtime::Runtime {
    tokio::runtime::Builder::new_multi_thread().worker_threads(2).enable_time().build().expect("runtime")
}

fn new_actor(rt: &tokio::runtime::Runtime, cap: usize, gate: bool) -> (ActorRef<Worker>, tokio::task::JoinHandle<rsactor::ActorResult<Worker>>, Arc<Mutex<Journal>>, Option<Arc<tokio::sync::Semaphore>>) {
    let journal = Arc::new(Mutex::new(Journal::default()));
    let g = if gate { Some(Arc::new(tokio::sync::Semaphore::new(0))) } else { None };
    let _e = rt.enter();
    let (r, jh) = spawn_with_mailbox_capacity::<Worker>(Init { journal: journal.clone(), gate: g.clone() }, cap);
    (r, jh, journal, g)
}

// ------------------------------------------------------------------------------------------------
// C11 (thread clause): ids are unique however concurrently actors are spawned; upgrade races
fn scenario_ids(seed: u64) {
    let rt = rt();
    let threads = 3 + (seed % 2) as usize;
    let per = 3;
    let all: Arc<Mutex<Vec<(u64, ActorRef<Worker>)>>> = Arc::new(Mutex::new(Vec::new()));
    let mut hs = Vec::new();
    for _ in 0..threads {
        let h = rt.handle().clone();
        let all = all.clone();
        hs.push(std::thread::spawn(move || {
            let _e = h.enter();
            for _ in 0..per {
                let (r, _jh) = spawn::<Worker>(Init { journal: Arc::new(Mutex::new(Journal::default())), gate: None });
                all.lock().unwrap().push((r.identity().id, r));
            }
        }));
    }
    for h in hs {
        h.join().unwrap();
    }
    let v = all.lock().unwrap();
    let mut ids: Vec<u64> = v.iter().map(|x| x.0).collect();
    ids.sort();
    ev(format!("ids {}", ids.len()));
    for w in ids.windows(2) {
        if w[0] == w[1] {
            violation("C11", "duplicate-id", format!("two actors spawned from different threads share id {}", w[0]));
        }
    }
    // clones / weak / upgraded handles report the same identity
    for (id, r) in v.iter() {
        let w = ActorRef::downgrade(r);
        if r.clone().identity().id != *id || w.identity().id != *id || w.upgrade().map(|u| u.identity().id) != Some(*id) {
            violation("C11", "identity-mismatch", format!("derived handles of actor {id} disagree on identity"));
        }
    }
    drop(v);
    // upgrade race: one thread drops the last strong reference while another upgrades
    let (r, jh, _j, _g) = new_actor(&rt, 4, false);
    let id = r.identity().id;
    let w = ActorRef::downgrade(&r);
    let w2 = w.clone();
    let t1 = std::thread::spawn(move || drop(r));
    let t2 = std::thread::spawn(move || {
        let up = w2.upgrade();
        match up {
            Some(u) => {
                // behaves like any other strong reference: usable, or failing cleanly
                let res = u.blocking_ask(Job(77, false), None);
                (true, u.identity().id, res.map(|x| x.id).map_err(|e| err_kind(&e)))
            }
            None => (false, 0, Err("none")),
        }
    });
    t1.join().unwrap();
    let (some, uid, res) = t2.join().unwrap();
    ev(format!("upgrade-race some={some} res={res:?}"));
    if some && uid != id {
        violation("C11", "identity-mismatch", "upgraded reference has a different identity".into());
    }
    if some {
        match res {
            Ok(77) | Err("Send") | Err("Receive") => {}
            other => violation("C11", "upgraded-ref-misbehaves", format!("ask through an upgraded reference returned {other:?}")),
        }
    }
    let out = rt.block_on(jh);
    if !matches!(out, Ok(ref r) if r.stopped_normally()) {
        violation("C07", "not-ended", "actor did not end normally after its last reference was dropped".into());
    }
    if w.upgrade().is_some() {
        violation("C11", "upgrade-some-after-death", "upgrade() succeeded after the actor ended and all references were dropped".into());
    }
}

// ------------------------------------------------------------------------------------------------
// C17: blocking API obeys delivery, ordering, reply integrity, errors and dead-letter rules
fn scenario_blocking(seed: u64) {
    let mut rng = Rng(seed);
    let rt = rt();
    let cap = [1usize, 2, 8][rng.below(3) as usize];
    let (r, jh, journal, _g) = new_actor(&rt, cap, false);
    let dl0 = rsactor::dead_letter_count();
    let n_threads = 2 + rng.below(2);
    let mut hs = Vec::new();
    for t in 0..n_threads {
        let r = r.clone();
        let mut trng = Rng(seed ^ (t + 1).wrapping_mul(0xABCD));
        hs.push(std::thread::spawn(move || {
            let mut sent = Vec::new();
            let mut errs = 0u64;
            for i in 0..3 {
                let id = (t + 1) * 100 + i;
                match trng.below(4) {
                    0 => match r.blocking_ask(Job(id, false), None) {
                        Ok(rc) => {
                            if rc.id != id {
                                violation("C17", "reply-mismatch", format!("blocking_ask({id}) got the reply of {}", rc.id));
                            }
                            sent.push(id);
                        }
                        Err(e) => {
                            errs += 1;
                            violation("C17", "unexpected-error", format!("blocking_ask on a live actor: {}", err_kind(&e)));
                        }
                    },
                    #[allow(deprecated)]
                    1 => match r.tell_blocking(Job(id, false), Some(Duration::from_millis(1))) {
                        Ok(()) => sent.push(id),
                        Err(e) => {
                            errs += 1;
                            violation("C17", "unexpected-error", format!("tell_blocking on a live actor: {}", err_kind(&e)));
                        }
                    },
                    _ => match r.blocking_tell(Job(id, false), None) {
                        Ok(()) => sent.push(id),
                        Err(e) => {
                            errs += 1;
                            violation("C17", "unexpected-error", format!("blocking_tell on a live actor: {}", err_kind(&e)));
                        }
                    },
                }
            }
            (sent, errs)
        }));
    }
    // an async client and a spawn_blocking caller alongside
    let r2 = r.clone();
    let async_client = rt.spawn(async move {
        let mut sent = Vec::new();
        for i in 0..2u64 {
            let id = 900 + i;
            if r2.tell(Job(id, false)).await.is_ok() {
                sent.push(id);
            }
        }
        sent
    });
    let r3 = r.clone();
    let sb = rt.spawn(async move { tokio::task::spawn_blocking(move || r3.blocking_ask(Job(800, false), None).map(|x| x.id)).await });
    let mut per_thread: Vec<Vec<u64>> = Vec::new();
    for h in hs {
        let (sent, _e) = h.join().unwrap();
        per_thread.push(sent);
    }
    per_thread.push(rt.block_on(async_client).unwrap());
    match rt.block_on(sb) {
        Ok(Ok(Ok(800))) => per_thread.push(vec![800]),
        other => violation("C17", "spawn_blocking-caller", format!("blocking_ask from spawn_blocking returned {:?}", other.map(|x| x.map(|y| y.map_err(|e| err_kind(&e)))))),
    }
    // graceful stop: everything accepted before must be handled before it completes
    r.blocking_tell(Job(999, false), None).ok();
    rt.block_on(r.stop()).unwrap();
    let res = rt.block_on(jh).unwrap();
    if !res.stopped_normally() {
        violation("C17", "stop", "actor did not stop normally".into());
    }
    let j = journal.lock().unwrap();
    ev(format!("handled {:?}", j.handled));
    for sent in &per_thread {
        let pos: Vec<Option<usize>> = sent.iter().map(|id| j.handled.iter().position(|x| x == id)).collect();
        for (id, p) in sent.iter().zip(&pos) {
            if p.is_none() {
                violation("C17", "accepted-not-handled", format!("message {id} was accepted (Ok) before stop but never handled"));
            }
        }
        for w in pos.windows(2) {
            if let (Some(a), Some(b)) = (w[0], w[1]) {
                if a > b {
                    violation("C17", "order-inverted", format!("per-thread order violated: {sent:?} handled as {:?}", j.handled));
                }
            }
        }
    }
    let mut sorted = j.handled.clone();
    sorted.sort();
    for w in sorted.windows(2) {
        if w[0] == w[1] {
            violation("C17", "handled-twice", format!("message {} handled twice", w[0]));
        }
    }
    if !j.handled.contains(&999) {
        violation("C17", "accepted-not-handled", "the last blocking_tell before stop was not handled".into());
    }
    drop(j);
    // after the end: errors and dead letters
    let mut expected = 0;
    match r.blocking_tell(Job(1, false), None) {
        Err(Error::Send { .. }) => expected += 1,
        other => violation("C17", "stopped-actor", format!("blocking_tell on a stopped actor returned {:?}", other.map_err(|e| err_kind(&e)))),
    }
    match r.blocking_ask(Job(2, false), None) {
        Err(Error::Send { .. }) => expected += 1,
        other => violation("C17", "stopped-actor", format!("blocking_ask on a stopped actor returned {:?}", other.map(|x| x.id).map_err(|e| err_kind(&e)))),
    }
    match r.blocking_tell(Job(3, false), Some(Duration::from_millis(5))) {
        Err(Error::Send { .. }) => expected += 1,
        other => violation("C17", "stopped-actor", format!("blocking_tell(Some) on a stopped actor returned {:?}", other.map_err(|e| err_kind(&e)))),
    }
    match r.blocking_ask(Job(4, false), Some(Duration::from_millis(5))) {
        Err(Error::Send { .. }) => expected += 1,
        other => violation("C17", "stopped-actor", format!("blocking_ask(Some) on a stopped actor returned {:?}", other.map(|x| x.id).map_err(|e| err_kind(&e)))),
    }
    let delta = rsactor::dead_letter_count() - dl0;
    ev(format!("dead-letters {delta} expected {expected}"));
    if delta != expected {
        violation("C13", "counter-delta", format!("dead_letter_count grew by {delta}, {expected} blocking operations failed"));
    }
}

// ------------------------------------------------------------------------------------------------
// C17: timeouts return by the deadline even if the actor never responds / the mailbox stays full
fn scenario_timeout(seed: u64) {
    let mut rng = Rng(seed);
    let rt = rt();
    let (r, jh, journal, gate) = new_actor(&rt, 1, true);
    let gate = gate.unwrap();
    let dl0 = rsactor::dead_letter_count();
    // the handler of this message waits at the gate: the actor is "slow"
    r.blocking_tell(Job(1, true), None).unwrap();
    // the rest of the scenario assumes that the actor has taken message 1 out of the mailbox (and waits at the gate)
    while journal.lock().unwrap().entered < 1 {
        std::thread::sleep(Duration::from_millis(1));
    }
    let t = Duration::from_millis(10 + rng.below(30));
    let mut expected_dl = 0;
    let t0 = Instant::now();
    let a = r.blocking_ask(Job(2, false), Some(t));
    let el = t0.elapsed();
    ev(format!("ask-timeout {:?} elapsed_ge={}", a.as_ref().map(|x| x.id).map_err(err_kind), el >= t));
    match a {
        Err(Error::Timeout { .. }) => {
            expected_dl += 1;
            if el < t {
                violation("C17", "timeout-early", format!("blocking_ask timed out after {el:?}, before its {t:?} deadline"));
            }
        }
        other => violation("C17", "timeout-missing", format!("blocking_ask(Some({t:?})) against an actor that cannot answer returned {:?}", other.map(|x| x.id).map_err(|e| err_kind(&e)))),
    }
    // message 2 timed out but sits in the single slot: the mailbox is full now
    let t0 = Instant::now();
    let b = r.blocking_tell(Job(3, false), Some(t));
    let el = t0.elapsed();
    ev(format!("tell-timeout {:?} elapsed_ge={}", b.as_ref().map_err(err_kind), el >= t));
    match b {
        Err(Error::Timeout { .. }) => {
            expected_dl += 1;
            if el < t {
                violation("C17", "timeout-early", format!("blocking_tell timed out after {el:?}, before its {t:?} deadline"));
            }
        }
        other => violation("C17", "timeout-missing", format!("blocking_tell(Some({t:?})) into a full mailbox returned {:?}", other.map_err(|e| err_kind(&e)))),
    }
    // deprecated aliases ignore their timeout: they return only after the gate opens
    let opener = {
        let gate = gate.clone();
        std::thread::spawn(move || {
            // far longer than any overhead Miri's clock charges for spawning the helper thread and
            // building its runtime: an alias that honoured its 1 ms timeout would be back long before
            std::thread::sleep(Duration::from_millis(5000));
            gate.add_permits(8);
        })
    };
    #[allow(deprecated)]
    let c = if rng.below(2) == 0 { r.ask_blocking(Job(4, true), Some(Duration::from_millis(1))).map(|x| x.id) } else { r.tell_blocking(Job(4, true), Some(Duration::from_millis(1))).map(|_| 4) };
    ev(format!("alias {:?}", c.as_ref().map_err(err_kind)));
    match c {
        Ok(4) => {}
        other => violation("C17", "alias-honours-timeout", format!("deprecated alias given Some(1ms) returned {:?} instead of waiting for the actor", other.map_err(|e| err_kind(&e)))),
    }
    opener.join().unwrap();
    rt.block_on(r.stop()).unwrap();
    let _ = rt.block_on(jh);
    let j = journal.lock().unwrap();
    ev(format!("handled {:?}", j.handled));
    if j.handled.contains(&3) {
        violation("C17", "rejected-handled", "a blocking_tell that reported Timeout was handled".into());
    }
    let delta = rsactor::dead_letter_count() - dl0;
    if delta != expected_dl {
        violation("C13", "counter-delta", format!("dead_letter_count grew by {delta}, {expected_dl} blocking operations failed"));
    }
}

// ------------------------------------------------------------------------------------------------
// C17: several plain threads call the timeout variants at the same instant against an actor that does
// not drain: at most `capacity` of them may succeed, every other call must come back with Timeout
// (never early) while the actor is still gated - a call that waits for the actor instead hangs here,
// because the gate is only opened after all callers have returned (Miri then reports a deadlock).
fn scenario_contended(seed: u64) {
    let mut rng = Rng(seed);
    let rt = rt();
    let cap = 2 + rng.below(2) as usize;
    let (r, jh, journal, gate) = new_actor(&rt, cap, true);
    let gate = gate.unwrap();
    // park the actor inside a handler; wait until it has taken that message so the mailbox is empty
    r.blocking_tell(Job(1, true), None).unwrap();
    while journal.lock().unwrap().entered == 0 {
        std::thread::sleep(Duration::from_millis(1));
    }
    let dl0 = rsactor::dead_letter_count();
    r.blocking_tell(Job(2, false), None).unwrap();
    // now: Job 2 sits in the mailbox; fill up so that exactly one slot is free
    let mut queued = 1;
    while queued + 1 < cap {
        r.blocking_tell(Job(3, false), None).unwrap();
        queued += 1;
    }
    let free = cap - queued;
    let callers = 3 + rng.below(2);
    let t = Duration::from_millis(15 + rng.below(20));
    let barrier = Arc::new(std::sync::Barrier::new(callers as usize));
    let mut hs = Vec::new();
    for i in 0..callers {
        let r = r.clone();
        let b = barrier.clone();
        let use_ask = rng.below(3) == 0;
        hs.push(std::thread::spawn(move || {
            b.wait();
            let t0 = Instant::now();
            let res = if use_ask { r.blocking_ask(Job(100 + i, false), Some(t)).map(|_| ()) } else { r.blocking_tell(Job(100 + i, false), Some(t)) };
            (res.map_err(|e| err_kind(&e)), t0.elapsed(), use_ask)
        }));
    }
    let mut oks = 0;
    let mut timeouts = 0u64;
    let mut tell_results: Vec<(u64, bool)> = Vec::new(); // (message id, returned Ok)
    for (i, h) in hs.into_iter().enumerate() {
        let (res, el, use_ask) = h.join().unwrap();
        match res {
            Ok(()) => {
                oks += 1;
                if use_ask {
                    violation("C17", "reply-from-gated-actor", "blocking_ask returned Ok although the actor was gated shut".into());
                } else {
                    tell_results.push((100 + i as u64, true));
                }
            }
            Err("Timeout") => {
                timeouts += 1;
                if !use_ask {
                    tell_results.push((100 + i as u64, false));
                }
                if el < t {
                    violation("C17", "timeout-early", format!("timed out after {el:?}, before the {t:?} deadline"));
                }
            }
            other => violation("C17", "unexpected-error", format!("contended timeout call returned {other:?}")),
        }
    }
    ev(format!("contended cap={cap} free={free} callers={callers} ok={oks} timeouts={timeouts}"));
    let delta = rsactor::dead_letter_count() - dl0;
    if delta != timeouts {
        violation("C13", "counter-delta", format!("dead_letter_count grew by {delta}, {timeouts} calls timed out"));
    }
    gate.add_permits(64);
    rt.block_on(r.stop()).unwrap();
    let _ = rt.block_on(jh);
    let j = journal.lock().unwrap();
    // every message that got into the mailbox is handled once the gate is open: that many were accepted
    let accepted = j.handled.iter().filter(|id| **id >= 100).count();
    ev(format!("handled {} accepted-from-callers {accepted}", j.handled.len()));
    if accepted != free {
        violation("C09", "contended-acceptance", format!("{callers} concurrent callers found {free} free slot(s) but {accepted} of their messages were accepted"));
    }
    for (id, ok) in tell_results {
        let handled = j.handled.contains(&id);
        if ok != handled {
            violation("C17", "tell-result-vs-delivery", format!("blocking_tell of {id} returned {} but the message was {}", if ok { "Ok" } else { "Timeout" }, if handled { "handled" } else { "never handled" }));
        }
    }
}

// ------------------------------------------------------------------------------------------------
// C17: timeout variants can be called inside an async runtime context without panicking
fn scenario_in_runtime(seed: u64) {
    let mut rng = Rng(seed);
    let rt = rt();
    let (r, jh, journal, _g) = new_actor(&rt, 4, false);
    let r2 = r.clone();
    let which = rng.below(2);
    let out = rt.block_on(rt.spawn(async move {
        let a = r2.blocking_tell(Job(1, false), Some(Duration::from_millis(200)));
        let b = if which == 0 { r2.blocking_ask(Job(2, false), Some(Duration::from_millis(200))).map(|x| x.id) } else { Ok(2) };
        (a.map_err(|e| err_kind(&e)), b.map_err(|e| err_kind(&e)))
    }));
    ev(format!("in-runtime {out:?}"));
    match out {
        Ok((Ok(()), Ok(2))) => {}
        Ok(other) => violation("C17", "in-runtime-failed", format!("timeout variants inside a runtime context returned {other:?}")),
        Err(e) => violation("C17", "in-runtime-panicked", format!("timeout variant inside a runtime context panicked: {e}")),
    }
    rt.block_on(r.stop()).unwrap();
    let _ = rt.block_on(jh);
    let j = journal.lock().unwrap();
    if !j.handled.contains(&1) {
        violation("C17", "accepted-not-handled", "blocking_tell(Some) from inside the runtime returned Ok but was not handled".into());
    }
}

// ------------------------------------------------------------------------------------------------
// C13 (thread clause): counter == failures under concurrency; Receive <-> reply dropped
fn scenario_deadletters(seed: u64) {
    let mut rng = Rng(seed);
    let rt = rt();
    let (r, jh, _journal, _g) = new_actor(&rt, 8, false);
    let dl0 = rsactor::dead_letter_count();
    // a blocking ask whose handler panics: reply dropped
    let first = r.blocking_ask(Poison(1), None);
    let mut expected = 0u64;
    match first {
        Err(Error::Receive { .. }) => expected += 1,
        other => violation("C17", "reply-dropped", format!("blocking_ask whose handler panicked returned {:?}", other.map_err(|e| err_kind(&e)))),
    }
    let out = rt.block_on(jh);
    if !matches!(out, Err(ref e) if e.is_panic()) {
        violation("C12", "panic-not-surfaced", "handler panic did not surface as a panic JoinError".into());
    }
    // now the actor is dead: every operation from every thread fails and records exactly one dead letter
    let threads = 2 + rng.below(2);
    let fails = Arc::new(AtomicU64::new(0));
    let mut hs = Vec::new();
    for t in 0..threads {
        let r = r.clone();
        let fails = fails.clone();
        let mut trng = Rng(seed ^ (t + 7));
        hs.push(std::thread::spawn(move || {
            for i in 0..3u64 {
                let res = match trng.below(3) {
                    0 => r.blocking_tell(Job(i, false), None).map_err(|e| err_kind(&e)),
                    1 => r.blocking_ask(Job(i, false), None).map(|_| ()).map_err(|e| err_kind(&e)),
                    _ => r.blocking_tell(Job(i, false), Some(Duration::from_millis(2))).map_err(|e| err_kind(&e)),
                };
                match res {
                    Err("Send") => {
                        fails.fetch_add(1, Ordering::SeqCst);
                    }
                    other => violation("C17", "stopped-actor", format!("operation on a dead actor returned {other:?}")),
                }
            }
        }));
    }
    for h in hs {
        h.join().unwrap();
    }
    expected += fails.load(Ordering::SeqCst);
    let delta = rsactor::dead_letter_count() - dl0;
    ev(format!("dead-letters {delta} expected {expected}"));
    if delta != expected {
        violation("C13", "counter-delta", format!("dead_letter_count grew by {delta} under {threads} threads, {expected} operations failed"));
    }
}

// ------------------------------------------------------------------------------------------------
// C01/C02/C03/C06 under real parallelism: async clients on a 2-worker runtime, so that the actor loop
// and its clients really run on different threads and interleave *inside* what Engine S treats as one poll
fn scenario_async_mt(seed: u64) {
    let mut rng = Rng(seed);
    let rt = rt();
    let cap = [1usize, 2, 4][rng.below(3) as usize];
    let (r, jh, journal, _g) = new_actor(&rt, cap, false);
    let ending = rng.below(3); // 0 stop by one client, 1 all references dropped, 2 kill
    let n_clients = 2 + rng.below(2);
    let killed_at = Arc::new(AtomicU64::new(0));
    let mut tasks = Vec::new();
    for c in 0..n_clients {
        let r = r.clone();
        let mut crng = Rng(seed ^ (c + 1).wrapping_mul(0x5151));
        let stopper = ending == 0 && c == 0;
        let killer = ending == 2 && c == 0;
        let journal = journal.clone();
        let killed_at = killed_at.clone();
        tasks.push(rt.spawn(async move {
            let mut ok_before_stop: Vec<u64> = Vec::new();
            let mut after_stop: Vec<u64> = Vec::new();
            let mut order: Vec<u64> = Vec::new();
            for i in 0..4u64 {
                let id = (c + 1) * 100 + i;
                let res = if crng.below(3) == 0 {
                    match r.ask(Job(id, false)).await {
                        Ok(rc) => {
                            if rc.id != id {
                                violation("C03", "reply-mismatch", format!("ask({id}) got the reply of {}", rc.id));
                            }
                            Ok(())
                        }
                        Err(e) => Err(e),
                    }
                } else {
                    r.tell(Job(id, false)).await
                };
                if res.is_ok() {
                    ok_before_stop.push(id);
                    order.push(id);
                }
                if crng.below(3) == 0 {
                    tokio::task::yield_now().await;
                }
            }
            if stopper {
                r.stop().await.unwrap();
                // nothing sent after stop() returned may ever be handled
                for i in 0..2u64 {
                    let id = 900 + i;
                    let _ = r.tell(Job(id, false)).await;
                    after_stop.push(id);
                }
            }
            if killer {
                r.kill().unwrap();
                killed_at.store(journal.lock().unwrap().handled.len() as u64 + 1, Ordering::SeqCst);
            }
            drop(r);
            (ok_before_stop, after_stop, order, stopper)
        }));
    }
    drop(r);
    let mut results = Vec::new();
    for t in tasks {
        results.push(rt.block_on(t).unwrap());
    }
    let out = rt.block_on(jh);
    let j = journal.lock().unwrap();
    ev(format!("async-mt ending={ending} cap={cap} handled={:?}", j.handled));
    let mut sorted = j.handled.clone();
    sorted.sort();
    for w in sorted.windows(2) {
        if w[0] == w[1] {
            violation("C01", "handled-twice", format!("message {} handled twice", w[0]));
        }
    }
    for (ok, after, order, stopper) in &results {
        let pos: Vec<Option<usize>> = order.iter().map(|id| j.handled.iter().position(|x| x == id)).collect();
        for w in pos.windows(2) {
            if let (Some(a), Some(b)) = (w[0], w[1]) {
                if a > b {
                    violation("C02", "order-inverted", format!("a client's messages {order:?} were handled as {:?}", j.handled));
                }
            }
        }
        for id in after {
            if j.handled.contains(id) {
                violation("C02", "handled-after-stop-returned", format!("message {id} was sent after stop() had returned and was handled"));
            }
        }
        // graceful endings never discard accepted work (the stopper's own earlier messages; with
        // last-drop endings everybody's)
        if (ending == 0 && *stopper) || ending == 1 {
            for id in ok {
                if !j.handled.contains(id) {
                    violation("C01", "accepted-not-handled", format!("message {id} was accepted before stop / last drop but never handled (handled: {:?})", j.handled));
                }
            }
        }
    }
    match (&out, ending) {
        (Ok(res), 0) | (Ok(res), 1) => {
            if !res.stopped_normally() {
                violation("C05", "result-mismatch", "graceful ending did not report Completed{killed:false}".into());
            }
        }
        (Ok(res), _) => {
            if !res.was_killed() {
                violation("C06", "kill-not-reported", "killed actor did not report killed=true".into());
            }
            let k = killed_at.load(Ordering::SeqCst);
            if k > 0 && (j.handled.len() as u64) > k + 1 {
                violation("C06", "handlers-after-kill", format!("{} handlers ran although kill() had returned after at most {} of them had started", j.handled.len(), k));
            }
        }
        (Err(e), _) => violation("C07", "unexpected-panic", format!("actor task failed: {e}")),
    }
    if !j.stopped {
        violation("C04", "on_stop-skipped", "on_stop did not run".into());
    }
}

// ------------------------------------------------------------------------------------------------
// C03 under real parallelism: asks issued at the very moment the actor ends (kill, stop, panic in a
// handler) must all complete - Ok or Err - and never wait forever. The window between "mailbox slot
// reserved" and "message pushed" of a send only exists when the asker and the actor run on different threads.
fn scenario_ask_vs_end(seed: u64) {
    let mut rng = Rng(seed);
    let rt = rt();
    let cap = [2usize, 8][rng.below(2) as usize];
    let (r, jh, journal, _g) = new_actor(&rt, cap, false);
    let ending = rng.below(3); // 0 kill, 1 stop, 2 handler panic
    let askers = 2 + rng.below(2);
    let mut tasks = Vec::new();
    for c in 0..askers {
        let r = r.clone();
        let spins = rng.below(4);
        let timed = rng.below(2) == 0;
        tasks.push(rt.spawn(async move {
            for _ in 0..spins {
                tokio::task::yield_now().await;
            }
            let id = 100 + c;
            // half of the askers use ask_with_timeout with a limit far beyond the scenario: it must behave like
            // ask here (a Timeout would mean that the call stayed pending on an actor that had ended)
            let res = if timed { r.ask_with_timeout(Job(id, false), Duration::from_secs(3600)).await } else { r.ask(Job(id, false)).await };
            match res {
                Ok(rc) => {
                    if rc.id != id {
                        violation("C03", "reply-mismatch", format!("ask({id}) got the reply of {}", rc.id));
                    }
                    "ok"
                }
                Err(e) => err_kind(&e),
            }
        }));
    }
    // end the actor while the asks are being sent
    for _ in 0..rng.below(3) {
        std::thread::yield_now();
    }
    match ending {
        0 => {
            r.kill().unwrap();
        }
        1 => {
            rt.block_on(r.stop()).unwrap();
        }
        _ => {
            let _ = r.blocking_tell(Poison(1), None);
        }
    }
    drop(r);
    let mut outcomes = Vec::new();
    for t in tasks {
        // a task that never finishes leaves every thread blocked: Miri reports the deadlock
        outcomes.push(rt.block_on(t).unwrap());
    }
    let _ = rt.block_on(jh);
    ev(format!("ask-vs-end ending={ending} cap={cap} outcomes={outcomes:?} handled={}", journal.lock().unwrap().handled.len()));
    for (c, o) in outcomes.iter().enumerate() {
        if !matches!(*o, "ok" | "Send" | "Receive") {
            violation("C03", "unexpected-error", format!("ask racing the actor's end returned {o}"));
        }
        // the handler ran to completion for this request, so its reply was sent before the mailbox closed:
        // the reply was not dropped and the request was delivered - an error here (and its dead letter) is wrong
        if *o != "ok" && journal.lock().unwrap().handled.contains(&(100 + c as u64)) {
            violation("C13", "error-although-replied", format!("ask {} returned {o} (and recorded a dead letter) although its handler had completed and replied", 100 + c));
        }
    }
}

// ------------------------------------------------------------------------------------------------
// C06 under real parallelism: kill() immediately followed by dropping the last reference. Nobody calls
// stop() and a reference is alive until after kill() has returned, so the actor cannot have begun
// stopping before the kill: it must report killed=true. (The window - the actor task is in the middle of
// polling its two channels when both the kill signal and the closing of the mailbox arrive - only
// exists when the killer and the actor run on different threads.)
fn scenario_kill_then_drop(seed: u64) {
    let mut rng = Rng(seed);
    let rt = rt();
    let cap = [1usize, 4][rng.below(2) as usize];
    let (r, jh, journal, _g) = new_actor(&rt, cap, false);
    let n_msgs = rng.below(3);
    for i in 0..n_msgs {
        let _ = r.blocking_tell(Job(100 + i, false), None);
    }
    // other holders drop their clones concurrently
    let mut holders = Vec::new();
    for _ in 0..rng.below(3) {
        let c = r.clone();
        let spins = rng.below(4);
        holders.push(std::thread::spawn(move || {
            for _ in 0..spins {
                std::thread::yield_now();
            }
            drop(c);
        }));
    }
    for _ in 0..rng.below(4) {
        std::thread::yield_now();
    }
    // (measured on the tree before the repair: sending more messages immediately before the kill hides the defect - 0 of
    // 192 executions - because the actor then meets the kill signal at the top of its next loop iteration; with the few
    // early messages above it shows in about 13 % of the executions over the pre-emption rates used for this scenario)
    // sweep the alignment between this thread and the actor task (the window is a few dozen basic blocks wide)
    let spin = rng.below(450);
    for i in 0..spin {
        std::hint::black_box(i);
    }
    let res = r.kill();
    drop(r);
    for h in holders {
        h.join().unwrap();
    }
    let out = rt.block_on(jh);
    let j = journal.lock().unwrap();
    ev(format!("kill-then-drop cap={cap} msgs={n_msgs} spin={spin} handled={} kill={:?}", j.handled.len(), res.is_ok()));
    if res.is_err() {
        violation("C06", "kill-failed", "kill() returned an error".into());
    }
    match out {
        Ok(res) => {
            if !res.was_killed() {
                violation("C06", "kill-not-reported", "kill() returned before the actor had begun stopping, yet the actor reported killed=false".into());
            }
        }
        Err(e) => violation("C07", "unexpected-panic", format!("actor task failed: {e}")),
    }
    if !j.stopped {
        violation("C04", "on_stop-skipped", "on_stop did not run".into());
    }
}

// ------------------------------------------------------------------------------------------------
// C17 / C03: many blocking_ask(None) calls in a row from several threads on a live actor (and, at the end, on a killed
// one). Each call parks its thread until the reply - or the closing of the mailbox - wakes it: a wake-up that is lost
// between the caller's poll and its park leaves the thread asleep for ever (Miri's deadlock verdict). High pre-emption
// rates, so that the caller is descheduled inside that window.
fn scenario_blocking_ask_storm(seed: u64) {
    let mut rng = Rng(seed);
    let rt = rt();
    let (r, jh, _journal, _g) = new_actor(&rt, 4, false);
    let per = 10 + rng.below(10);
    let kill_at_end = rng.below(2) == 0;
    let mut threads = Vec::new();
    for c in 0..2 + rng.below(2) {
        let r = r.clone();
        threads.push(std::thread::spawn(move || {
            let mut bad = 0;
            for i in 0..per {
                let id = (c + 1) * 1000 + i;
                match r.blocking_ask(Job(id, false), None) {
                    Ok(rc) if rc.id == id => {}
                    Ok(_) => bad += 1,
                    Err(_) => bad += 100,
                }
            }
            bad
        }));
    }
    let mut bad = 0;
    for t in threads {
        bad += t.join().unwrap();
    }
    if bad != 0 {
        violation("C17", "storm-wrong-reply", format!("blocking_ask storm on a live actor: error score {bad} (1 per wrong reply, 100 per error)"));
    }
    if kill_at_end {
        // callers that start while the actor is being killed: every call returns
        let mut late = Vec::new();
        for c in 0..2u64 {
            let r = r.clone();
            late.push(std::thread::spawn(move || r.blocking_ask(Job(9000 + c, false), None).is_ok()));
        }
        r.kill().unwrap();
        for t in late {
            let _ = t.join().unwrap();
        }
    } else {
        rt.block_on(r.stop()).unwrap();
    }
    let _ = rt.block_on(jh);
    ev(format!("blocking-ask-storm per={per} kill_at_end={kill_at_end} bad={bad}"));
}

// ------------------------------------------------------------------------------------------------
// C06 from a plain thread: kill() never blocks, busy actor or not, first call or repeated. The handler in progress
// only finishes after kill() has returned twice (the gate opens afterwards), so a kill() that waits for the actor
// leaves every thread blocked: Miri's deadlock verdict. Afterwards: killed = true, leftovers never handled, their asks fail.
fn scenario_kill_busy_from_thread(seed: u64) {
    let mut rng = Rng(seed);
    let rt = rt();
    let cap = 2 + rng.below(3) as usize;
    let (r, jh, journal, gate) = new_actor(&rt, cap, true);
    let gate = gate.unwrap();
    r.blocking_tell(Job(1, true), None).unwrap();
    while journal.lock().unwrap().entered < 1 {
        std::thread::sleep(Duration::from_millis(1));
    }
    let queued = rng.below(cap as u64);
    for i in 0..queued {
        r.blocking_tell(Job(10 + i, false), None).unwrap();
    }
    let asker = {
        let r = r.clone();
        rt.spawn(async move { r.ask(Job(50, false)).await.map(|rc| rc.id).map_err(|e| err_kind(&e)) })
    };
    std::thread::sleep(Duration::from_millis(5));
    // this thread has no runtime context
    let k1 = r.kill();
    let k2 = if rng.below(2) == 0 { r.kill() } else { Ok(()) };
    ev(format!("kill-busy-from-thread cap={cap} queued={queued} kill={:?}/{:?}", k1.is_ok(), k2.is_ok()));
    if k1.is_err() || k2.is_err() {
        violation("C06", "kill-failed", "kill() returned an error".into());
    }
    gate.add_permits(8);
    let out = rt.block_on(jh);
    let asked = rt.block_on(asker).unwrap();
    let j = journal.lock().unwrap();
    match out {
        Ok(res) => {
            if !res.was_killed() {
                violation("C06", "kill-not-reported", "killed actor did not report killed=true".into());
            }
        }
        Err(e) => violation("C07", "unexpected-panic", format!("actor task failed: {e}")),
    }
    if j.handled.len() > 2 {
        violation("C06", "handlers-after-kill", format!("{} handlers completed although kill() returned while the first one was still in progress", j.handled.len()));
    }
    if asked.is_ok() && !j.handled.contains(&50) {
        violation("C03", "ok-without-handler", "an ask queued behind the kill returned Ok".into());
    }
}

// ------------------------------------------------------------------------------------------------
// C17: timed blocking calls that are *waiting* (for room in a full mailbox, for a reply) when the actor ends must report
// what the async API reports - the actor stopped (Send / Receive) - at that moment: never Timeout (their deadline is an
// hour away), never a hang.
fn scenario_timed_blocking_vs_end(seed: u64) {
    let mut rng = Rng(seed);
    let rt = rt();
    let (r, jh, journal, gate) = new_actor(&rt, 1, true);
    let gate = gate.unwrap();
    r.blocking_tell(Job(1, true), None).unwrap();
    while journal.lock().unwrap().entered < 1 {
        std::thread::sleep(Duration::from_millis(1));
    }
    let fill = rng.below(3) != 0;
    if fill {
        r.blocking_tell(Job(2, false), None).unwrap(); // the mailbox is full now
    }
    let hour = Duration::from_secs(3600);
    let started = Arc::new(AtomicU64::new(0));
    let mut threads = Vec::new();
    for c in 0..1 + rng.below(2) {
        let r = r.clone();
        let started = started.clone();
        let use_ask = rng.below(2) == 0;
        threads.push(std::thread::spawn(move || {
            started.fetch_add(1, Ordering::SeqCst);
            let res = if use_ask { r.blocking_ask(Job(100 + c, false), Some(hour)).map(|_| ()) } else { r.blocking_tell(Job(100 + c, false), Some(hour)) };
            match res {
                Ok(()) => "ok",
                Err(e) => err_kind(&e),
            }
        }));
    }
    let n = threads.len() as u64;
    while started.load(Ordering::SeqCst) < n {
        std::thread::sleep(Duration::from_millis(1));
    }
    std::thread::sleep(Duration::from_millis(100 + rng.below(400)));
    let ending = rng.below(2);
    if ending == 0 {
        r.kill().unwrap();
    } else {
        let _ = rt.block_on(r.tell_with_timeout(Poison(9), Duration::from_millis(1)));
        r.kill().unwrap();
    }
    gate.add_permits(8);
    let mut outcomes = Vec::new();
    for t in threads {
        outcomes.push(t.join().unwrap());
    }
    let _ = rt.block_on(jh);
    ev(format!("timed-blocking-vs-end fill={fill} ending={ending} outcomes={outcomes:?}"));
    for o in &outcomes {
        if !matches!(*o, "ok" | "Send" | "Receive") {
            violation("C17", "wrong-error-when-actor-ends", format!("a timed blocking call (deadline an hour away) that was waiting when the actor ended returned {o}"));
        }
    }
}

// ------------------------------------------------------------------------------------------------
// C17 "given a timeout they return by the deadline", across threads: one thread's timed call that legitimately waits
// out a long timeout on a stuck actor must not delay another thread's timed calls - neither to a healthy actor nor to
// the stuck one. Miri's clock charges virtual time for executed code, so the bound is generous (a third of the long
// timeout) but still far below what a call would take if it had to wait for the other call's timeout first.
fn scenario_timed_independent(seed: u64) {
    let mut rng = Rng(seed);
    let rt = rt();
    let (x, xjh, xjournal, gate) = new_actor(&rt, 1, true);
    let gate = gate.unwrap();
    let (y, yjh, _yj, _g) = new_actor(&rt, 4, false);
    x.blocking_tell(Job(1, true), None).unwrap();
    while xjournal.lock().unwrap().entered < 1 {
        std::thread::sleep(Duration::from_millis(1));
    }
    x.blocking_tell(Job(2, false), None).unwrap(); // the single slot is taken: X's mailbox stays full
    let long = Duration::from_secs(30);
    let started = Arc::new(AtomicU64::new(0));
    // how many threads wait out the long timeout at the same time: usually one, sometimes a burst (every timed blocking
    // call gets a helper thread of its own; no number of stuck calls may stand in the way of an unrelated one)
    let n_long = match rng.below(6) {
        0 | 1 | 2 => 9 + rng.below(2),
        3 => 2 + rng.below(2),
        _ => 1,
    };
    let mut waiters = Vec::new();
    for _ in 0..n_long {
        let x = x.clone();
        let started = started.clone();
        let use_ask = rng.below(2) == 0;
        waiters.push(std::thread::spawn(move || {
            started.fetch_add(1, Ordering::SeqCst);
            let t0 = Instant::now();
            let r = if use_ask { x.blocking_ask(Job(3, false), Some(long)).map(|_| ()) } else { x.blocking_tell(Job(3, false), Some(long)) };
            (r.map_err(|e| err_kind(&e)), t0.elapsed())
        }));
    }
    while started.load(Ordering::SeqCst) < n_long {
        std::thread::sleep(Duration::from_millis(1));
    }
    std::thread::sleep(Duration::from_millis(50 + rng.below(200)));
    let bound = long / 3;
    let t0 = Instant::now();
    // (with a burst of waiters still setting up their helper threads, Miri's clock - which charges every thread's work -
    // runs fast: the healthy call gets a timeout that no amount of such inflation reaches, still a tenth of `long`)
    let healthy_timeout = Duration::from_millis(if n_long >= 4 { 3000 } else { 300 });
    let r1 = y.blocking_ask(Job(10, false), Some(healthy_timeout)).map(|rc| rc.id).map_err(|e| err_kind(&e));
    let e1 = t0.elapsed();
    let t0 = Instant::now();
    let r2 = x.blocking_tell(Job(11, false), Some(Duration::from_millis(200))).map_err(|e| err_kind(&e));
    let e2 = t0.elapsed();
    ev(format!("timed-independent long_waiters={n_long} healthy={r1:?} in {}ms stuck={r2:?} in {}ms", e1.as_millis(), e2.as_millis()));
    if r1 != Ok(10) {
        violation("C17", "healthy-actor-call-failed", format!("blocking_ask(Some({healthy_timeout:?})) to a live, idle actor returned {r1:?} while {n_long} other timed call(s) were waiting on a different actor"));
    }
    if e1 > bound {
        violation("C17", "timed-call-delayed-by-another", format!("blocking_ask(Some({healthy_timeout:?})) to a live, idle actor took {e1:?} while another thread's call was waiting out its {long:?} timeout on a different actor"));
    }
    if r2 != Err("Timeout") {
        violation("C17", "timeout-missing", format!("blocking_tell(Some(200ms)) into a mailbox that stays full returned {r2:?}"));
    }
    if e2 > bound {
        violation("C17", "timed-call-delayed-by-another", format!("blocking_tell(Some(200ms)) took {e2:?} to time out while another thread's call was waiting out its {long:?} timeout"));
    }
    for a in waiters {
        let (ra, ea) = a.join().unwrap();
        if ra != Err("Timeout") || ea < long {
            violation("C17", "long-call-wrong", format!("the long call returned {ra:?} after {ea:?}"));
        }
    }
    gate.add_permits(8);
    rt.block_on(x.stop()).unwrap();
    rt.block_on(y.stop()).unwrap();
    let _ = rt.block_on(xjh);
    let _ = rt.block_on(yjh);
    let hx = xjournal.lock().unwrap();
    if hx.handled.contains(&3) || hx.handled.contains(&11) {
        violation("C17", "rejected-handled", format!("a blocking call that reported Timeout was handled: {:?}", hx.handled));
    }
}

// ------------------------------------------------------------------------------------------------
// C20 under real threads (feature `metrics`; Miri without isolation because the collector reads the wall clock - only
// counts are checked, never a clock value): reader threads hammer the snapshot and the accessors while the actor handles
// a burst. Once the actor is quiescent message_count equals the number of handlers entered, the snapshot agrees with the
// accessors, and the final values stay readable through a weak-upgraded handle after the actor ended.
#[cfg(feature = "metrics")]
fn scenario_metrics_mt(seed: u64) {
    let mut rng = Rng(seed);
    let rt = rt();
    let (r, jh, journal, _g) = new_actor(&rt, 8, false);
    let weak = ActorRef::downgrade(&r);
    let n = 6 + rng.below(10);
    let stop_flag = Arc::new(AtomicU64::new(0));
    let mut readers = Vec::new();
    for k in 0..1 + rng.below(2) {
        let r = r.clone();
        let stop_flag = stop_flag.clone();
        readers.push(std::thread::spawn(move || {
            let mut last = 0u64;
            let mut reads = 0u64;
            while stop_flag.load(Ordering::SeqCst) == 0 && reads < 400 {
                let c = if (reads + k) % 2 == 0 { r.metrics().message_count } else { r.message_count() };
                if c < last {
                    violation("C20", "count-decreased", format!("message_count went from {last} to {c}"));
                }
                last = c;
                reads += 1;
            }
        }));
    }
    for i in 0..n {
        r.blocking_tell(Job(100 + i, false), None).unwrap();
    }
    // barrier: every earlier message has been handled when this reply arrives
    let _ = r.blocking_ask(Job(999, false), None);
    stop_flag.store(1, Ordering::SeqCst);
    for t in readers {
        t.join().unwrap();
    }
    let entered = journal.lock().unwrap().entered;
    // the sample of the last message is recorded right after its handler returned (its reply is already out): wait,
    // without relying on any clock, until the count stops short of nothing - or give up after a bounded number of yields
    let mut count = r.message_count();
    let mut yields = 0;
    while count != entered && yields < 3000 {
        std::thread::yield_now();
        yields += 1;
        count = r.message_count();
    }
    let snap = r.metrics();
    ev(format!("metrics-mt n={n} entered={entered} count={count}"));
    if count != entered {
        violation("C20", "count-mismatch", format!("message_count = {count} once the actor is quiescent, but {entered} handlers were entered"));
    }
    if snap.message_count != count || r.avg_processing_time() > r.max_processing_time() {
        violation("C20", "snapshot-differs", format!("snapshot count {} vs accessor {count}, avg {:?} max {:?}", snap.message_count, r.avg_processing_time(), r.max_processing_time()));
    }
    rt.block_on(r.stop()).unwrap();
    let _ = rt.block_on(jh);
    let after = r.message_count();
    drop(r);
    if after != entered {
        violation("C20", "final-count-mismatch", format!("message_count = {after} after the actor ended, {entered} handlers were entered"));
    }
    let _ = weak;
}
#[cfg(not(feature = "metrics"))]
fn scenario_metrics_mt(_seed: u64) {
    eprintln!("built without the metrics feature");
    std::process::exit(2);
}

// ------------------------------------------------------------------------------------------------
// C16 (thread clause): the blocking forwarders of the type-erased handlers. Two identically prepared actors
// (gated handler in progress, mailbox filled to capacity or not), the same blocking call with the same
// timeout - once on the ActorRef, once through Box<dyn TellHandler> / Box<dyn AskHandler> (every conversion)
// - must give the same kind of result and the same effect on the actor. A call through the erased handle
// that blocks where the direct one returns leaves every thread blocked: Miri's deadlock verdict.
fn scenario_erased_blocking(seed: u64) {
    use rsactor::{AskHandler, TellHandler};
    let mut rng = Rng(seed);
    let rt = rt();
    let cap = 1 + rng.below(2) as usize;
    let fill = rng.below(2) == 0; // mailbox full at the time of the call?
    let use_ask = rng.below(2) == 0;
    let timeout = [Some(Duration::ZERO), Some(Duration::from_millis(1)), Some(Duration::from_millis(20)), None][rng.below(4) as usize];
    // an untimed call on a gated actor only returns once the gate opens: release it from a helper thread
    let by_ref = rng.below(2) == 0;
    let mut obs = Vec::new();
    for erased in [false, true] {
        let (r, jh, journal, gate) = new_actor(&rt, cap, true);
        let gate = gate.unwrap();
        r.blocking_tell(Job(1, true), None).unwrap();
        while journal.lock().unwrap().entered < 1 {
            std::thread::sleep(Duration::from_millis(1));
        }
        if fill {
            for i in 0..cap as u64 {
                r.blocking_tell(Job(10 + i, false), None).unwrap();
            }
        }
        let opener = if timeout.is_none() {
            let gate = gate.clone();
            Some(std::thread::spawn(move || {
                std::thread::sleep(Duration::from_millis(3000));
                gate.add_permits(8);
            }))
        } else {
            None
        };
        let res: Result<(), Error> = match (erased, use_ask) {
            (false, false) => r.blocking_tell(Job(50, false), timeout),
            (false, true) => r.blocking_ask(Job(50, false), timeout).map(|_| ()),
            (true, false) => {
                let h: Box<dyn TellHandler<Job>> = if by_ref { (&r).into() } else { r.clone().into() };
                h.blocking_tell(Job(50, false), timeout)
            }
            (true, true) => {
                let h: Box<dyn AskHandler<Job, Receipt>> = if by_ref { (&r).into() } else { r.clone().into() };
                h.blocking_ask(Job(50, false), timeout).map(|_| ())
            }
        };
        let kind = match &res {
            Ok(()) => "ok",
            Err(e) => err_kind(e),
        };
        if let Some(o) = opener {
            o.join().unwrap();
        }
        gate.add_permits(8);
        rt.block_on(r.stop()).unwrap();
        let _ = rt.block_on(jh);
        let handled50 = journal.lock().unwrap().handled.contains(&50);
        obs.push((kind, handled50));
    }
    ev(format!("erased-blocking ask={use_ask} cap={cap} fill={fill} timeout={timeout:?} by_ref={by_ref} direct={:?} erased={:?}", obs[0], obs[1]));
    if obs[0] != obs[1] {
        violation("C16", "blocking-differs", format!("{}(.., {timeout:?}) on a gated actor (mailbox full: {fill}): directly {:?}, through the erased handler {:?} (result kind, message handled)", if use_ask { "blocking_ask" } else { "blocking_tell" }, obs[0], obs[1]));
    }
}

// ------------------------------------------------------------------------------------------------
// C14 / C15 under real parallelism (feature deadlock-detection): the wait-for graph is shared by every
// thread. Ring: every node's handler asks the next node, several clients enter the ring at different
// nodes at once - some participant must report the cycle and nobody may be left waiting (Miri's deadlock
// verdict is the hang oracle). Chain: the same traffic over an acyclic topology must never be reported.
struct Node {
    next: Option<ActorRef<Node>>,
    /// handlers that are to ask at the same moment meet here first: (arrivals, expected)
    rendezvous: Option<(Arc<AtomicU64>, u64)>,
}
struct SetNext(Option<ActorRef<Node>>, Option<(Arc<AtomicU64>, u64)>);
/// (hops still to go, busy iterations before asking on - sweeps the alignment between concurrently asking handlers)
struct Hop(u64, u64);

impl Actor for Node {
    type Args = ();
    type Error = String;
    async fn on_start(_a: (), _r: &ActorRef<Self>) -> Result<Self, String> {
        Ok(Node { next: None, rendezvous: None })
    }
}

#[message_handlers]
impl Node {
    #[handler]
    async fn set_next(&mut self, m: SetNext, _r: &ActorRef<Self>) {
        self.next = m.0;
        self.rendezvous = m.1;
    }
    #[handler]
    async fn hop(&mut self, h: Hop, _r: &ActorRef<Self>) -> u64 {
        for i in 0..h.1 {
            std::hint::black_box(i);
        }
        if let (Some((arrived, expected)), true) = (&self.rendezvous, h.0 > 0) {
            // bounded: if the others never come (their request was refused, say) carry on alone
            arrived.fetch_add(1, Ordering::SeqCst);
            let mut spins = 0;
            while arrived.load(Ordering::SeqCst) < *expected && spins < 2000 {
                std::thread::yield_now();
                spins += 1;
            }
        }
        match (&self.next, h.0) {
            (Some(n), d) if d > 0 => match n.ask(Hop(d - 1, 0)).await {
                Ok(v) => v + 1,
                Err(_) => 1000,
            },
            _ => 0,
        }
    }
}

fn scenario_dd_mt(seed: u64) {
    let mut rng = Rng(seed);
    let rt = rt();
    let n = 2 + rng.below(2) as usize;
    // 0: one request goes all the way round a ring (the cycle closes in every schedule); 1: acyclic chain;
    // 2: ring, one client per node, every handler asks its successor once, all at the same time (the cycle closes
    // only if the asks overlap: whether or not it does, nobody may be left waiting)
    let variant = rng.below(4).min(2);
    let ring = variant != 1;
    let mut refs = Vec::new();
    let mut joins = Vec::new();
    {
        let _e = rt.enter();
        for _ in 0..n {
            let (r, jh) = spawn::<Node>(());
            refs.push(r);
            joins.push(jh);
        }
    }
    // variant 2, half of the runs: the handlers wait for each other before they ask, so that the asks that close the
    // cycle are issued within a few instructions of each other on different worker threads
    let meet = if variant == 2 && rng.below(2) == 0 { Some((Arc::new(AtomicU64::new(0)), n.min(2) as u64)) } else { None };
    for i in 0..n {
        let next = if i + 1 < n { Some(refs[i + 1].clone()) } else if ring { Some(refs[0].clone()) } else { None };
        refs[i].blocking_tell(SetNext(next, meet.clone()), None).unwrap();
    }
    let clients = if variant == 2 { n } else { 1 + rng.below(2) as usize };
    let offset = rng.below(n as u64) as usize;
    let mut tasks = Vec::new();
    for c in 0..clients {
        let entry = refs[(c + offset) % n].clone();
        let depth = match variant {
            0 => n as u64 + rng.below(2),
            1 => n as u64,
            _ => 1,
        };
        let spins = if variant == 2 { 0 } else { rng.below(3) };
        let busy = if variant == 2 { rng.below(300) } else { 0 };
        tasks.push(rt.spawn(async move {
            for _ in 0..spins {
                tokio::task::yield_now().await;
            }
            match entry.ask(Hop(depth, busy)).await {
                Ok(v) => format!("ok{v}"),
                Err(e) => err_kind(&e).to_string(),
            }
        }));
    }
    let mut outcomes = Vec::new();
    for t in tasks {
        // a request that never completes leaves every thread blocked: Miri reports the deadlock
        outcomes.push(rt.block_on(t).unwrap());
    }
    // break the reference ring so that the survivors end
    for r in &refs {
        let _ = r.blocking_tell(SetNext(None, None), None);
    }
    drop(refs);
    let mut panicked = 0;
    for jh in joins {
        if rt.block_on(jh).is_err() {
            panicked += 1;
        }
    }
    ev(format!("dd-mt variant={variant} n={n} clients={clients} outcomes={outcomes:?} panicked={panicked}"));
    let clean = |o: &String| o.starts_with("ok") && o[2..].parse::<u64>().map(|v| v < 1000).unwrap_or(false);
    match variant {
        0 => {
            // somebody must have reported the cycle, and no request can have gone round untouched
            if panicked == 0 || outcomes.iter().all(clean) {
                violation("C14", "cycle-not-reported", format!("a request went round the ring of {n} actors without a deadlock report: outcomes {outcomes:?}, {panicked} actors panicked"));
            }
        }
        1 => {
            if panicked > 0 || !outcomes.iter().all(clean) {
                violation("C15", "false-deadlock", format!("acyclic chain of {n} actors: outcomes {outcomes:?}, {panicked} actors panicked"));
            }
        }
        _ => {
            // without a report every request completed normally
            if panicked == 0 && !outcomes.iter().all(clean) {
                violation("C15", "error-without-report", format!("ring of {n} actors, nobody panicked, yet outcomes {outcomes:?}"));
            }
        }
    }
}

// ------------------------------------------------------------------------------------------------
// the end of an actor as seen from other threads (C11 liveness / upgrade, C03 / C17 sends on a dead actor,
// C13 counter): while the actor ends (kill / stop / handler panic / last reference dropped) one thread polls
// is_alive(), one upgrades a weak reference and uses what it gets; once the JoinHandle has resolved is_alive()
// must be false and every kind of send must fail with Send and count one dead letter each
fn scenario_end_vs_observers(seed: u64) {
    let mut rng = Rng(seed);
    let rt = rt();
    let cap = [1usize, 4][rng.below(2) as usize];
    let (r, jh, _journal, _g) = new_actor(&rt, cap, false);
    let id = r.identity();
    let ending = rng.below(4); // 0 kill, 1 stop, 2 handler panic, 3 last reference dropped
    let weak = ActorRef::downgrade(&r);
    let probe = if ending == 3 { None } else { Some(r.clone()) };
    if !r.is_alive() {
        violation("C11", "not-alive-after-spawn", "is_alive() false right after spawn".into());
    }
    // observer 1: is_alive never goes back to true
    let o1 = {
        let w = weak.clone();
        let probe = probe.clone();
        let spins = 2 + rng.below(4);
        std::thread::spawn(move || {
            let mut seen_dead = false;
            for _ in 0..spins {
                let alive = match &probe {
                    Some(p) => p.is_alive(),
                    None => w.upgrade().map(|r| r.is_alive()).unwrap_or(false),
                };
                if alive && seen_dead {
                    violation("C11", "alive-again", "is_alive() returned true after it had returned false".into());
                }
                seen_dead |= !alive;
                std::thread::yield_now();
            }
        })
    };
    // observer 2: whatever upgrade() returns is a full reference to the same actor
    let o2 = {
        let w = weak.clone();
        let spins = rng.below(3);
        std::thread::spawn(move || {
            for _ in 0..spins {
                std::thread::yield_now();
            }
            if let Some(r2) = w.upgrade() {
                if r2.identity() != id {
                    violation("C11", "identity-differs", "upgraded reference reports another identity".into());
                }
                // behaves like any strong reference: a send either succeeds or fails with Send
                match r2.blocking_tell(Job(7, false), None) {
                    Ok(()) => {}
                    Err(e) => {
                        if err_kind(&e) != "Send" {
                            violation("C11", "upgraded-ref-odd-error", format!("send through an upgraded reference failed with {}", err_kind(&e)));
                        }
                    }
                }
            }
        })
    };
    for _ in 0..rng.below(3) {
        std::thread::yield_now();
    }
    match ending {
        0 => r.kill().unwrap(),
        1 => rt.block_on(r.stop()).unwrap(),
        2 => {
            let _ = r.blocking_tell(Poison(1), None);
        }
        _ => {}
    }
    drop(r);
    o1.join().unwrap();
    o2.join().unwrap();
    let out = rt.block_on(jh);
    let ended_by_panic = out.is_err();
    if ending != 2 && ended_by_panic {
        violation("C07", "unexpected-panic", "actor task failed".into());
    }
    if let Some(p) = &probe {
        if p.is_alive() {
            violation("C11", "is_alive-true-after-end", "is_alive() returned true after the JoinHandle had resolved".into());
        }
        let before = rsactor::dead_letter_count();
        let mut fails = 0u64;
        let results: Vec<(&str, Result<(), Error>)> = vec![
            ("tell", rt.block_on(p.tell(Job(900, false)))),
            ("ask", rt.block_on(p.ask(Job(901, false))).map(|_| ())),
            ("tell_with_timeout", rt.block_on(p.tell_with_timeout(Job(902, false), Duration::from_millis(50)))),
            ("blocking_tell", p.blocking_tell(Job(903, false), None)),
            ("blocking_ask", p.blocking_ask(Job(904, false), None).map(|_| ())),
        ];
        for (name, res) in &results {
            match res {
                Ok(()) => violation("C11", "send-ok-after-end", format!("{name} succeeded after the JoinHandle had resolved")),
                Err(e) => {
                    fails += 1;
                    if err_kind(e) != "Send" {
                        violation(if name.starts_with("blocking") { "C17" } else { "C03" }, "wrong-error-after-end", format!("{name} on an ended actor failed with {} instead of Send", err_kind(e)));
                    }
                }
            }
        }
        let delta = rsactor::dead_letter_count() - before;
        if delta != fails {
            violation("C13", "counter-delta", format!("{fails} failed sends on an ended actor recorded {delta} dead letters"));
        }
        ev(format!("end-vs-observers ending={ending} cap={cap} fails={fails} dl={delta}"));
    } else {
        // nobody sent anything (observer 2's tell aside, which completed before its thread was joined): no
        // reference can be left
        let still = weak.upgrade().is_some();
        ev(format!("end-vs-observers ending={ending} cap={cap} upgrade_after_end={still}"));
        if still {
            violation("C11", "upgrade-some-after-death", "upgrade() returned Some after the actor had ended and every strong reference was gone".into());
        }
    }
}

// ------------------------------------------------------------------------------------------------
// the same race seen from threads: blocking_ask(None) callers racing the actor's end. "Same error rules
// as ask" (C17) includes "never hangs on a dead actor": every call must return; Miri's deadlock verdict is
// the hang oracle
fn scenario_blocking_ask_vs_end(seed: u64) {
    let mut rng = Rng(seed);
    let rt = rt();
    let cap = [2usize, 8][rng.below(2) as usize];
    let (r, jh, journal, _g) = new_actor(&rt, cap, false);
    let ending = rng.below(3); // 0 kill, 1 stop, 2 handler panic
    let askers = 2 + rng.below(2);
    let mut threads = Vec::new();
    for c in 0..askers {
        let r = r.clone();
        let spins = rng.below(4);
        threads.push(std::thread::spawn(move || {
            for _ in 0..spins {
                std::thread::yield_now();
            }
            let id = 100 + c;
            match r.blocking_ask(Job(id, false), None) {
                Ok(rc) => {
                    if rc.id != id {
                        violation("C17", "reply-mismatch", format!("blocking_ask({id}) got the reply of {}", rc.id));
                    }
                    "ok"
                }
                Err(e) => err_kind(&e),
            }
        }));
    }
    for _ in 0..rng.below(3) {
        std::thread::yield_now();
    }
    match ending {
        0 => {
            r.kill().unwrap();
        }
        1 => {
            rt.block_on(r.stop()).unwrap();
        }
        _ => {
            let _ = r.blocking_tell(Poison(1), None);
        }
    }
    drop(r);
    let mut outcomes = Vec::new();
    for t in threads {
        outcomes.push(t.join().unwrap());
    }
    let _ = rt.block_on(jh);
    ev(format!("blocking-ask-vs-end ending={ending} cap={cap} outcomes={outcomes:?} handled={}", journal.lock().unwrap().handled.len()));
    for (c, o) in outcomes.iter().enumerate() {
        if !matches!(*o, "ok" | "Send" | "Receive") {
            violation("C17", "unexpected-error", format!("blocking_ask racing the actor's end returned {o}"));
        }
        // as for ask: a request whose handler completed was answered before the mailbox closed
        if *o != "ok" && journal.lock().unwrap().handled.contains(&(100 + c as u64)) {
            violation("C17", "error-although-replied", format!("blocking_ask {} returned {o} (and recorded a dead letter) although its handler had completed and replied", 100 + c));
            violation("C13", "dead-letter-although-replied", format!("blocking_ask {} recorded a '{o}' dead letter although the request was delivered and answered", 100 + c));
        }
    }
}

// ------------------------------------------------------------------------------------------------
// The park/unpark executor behind blocking_ask(msg, None) (reached through the --cfg rsactor_verif hook
// `__verif_block_on_parked`; the function itself is the shipped one) against adversarial wake-up timing. Through the public
// API a reply arrives thousands of basic blocks after the caller parked, so the window "waker registered | thread parks" is
// practically never met by a wake-up; here the wake-up sources are as close as they can be:
//   * a hand-written future whose waker is taken and fired by spinning threads the moment it is registered, several rounds;
//   * the futures the library really waits on (oneshot reply, mailbox `closed()`, their biased select) completed by a thread
//     after a seeded number of spins;
//   * legal noise: a stale unpark token before the call and spurious unparks of the calling thread during it.
// Oracle: the call returns the future's own value, every time (a lost wake-up leaves every thread blocked: Miri's deadlock
// verdict), and the future is never polled again after it was Ready.
struct Slot {
    waker: Mutex<Option<std::task::Waker>>,
    fired: AtomicU64,
    need: u64,
    polled_after_ready: AtomicU64,
    ready_seen: AtomicU64,
    polls: AtomicU64,
    /// the future gives up its time slice right after registering its waker (legal for a future; under Miri the
    /// wakers then run before the poll returns, which puts the wake-up inside the executor's poll | park window)
    yield_after_register: bool,
}
struct Adversary(Arc<Slot>, u64);
impl std::future::Future for Adversary {
    type Output = u64;
    fn poll(self: std::pin::Pin<&mut Self>, cx: &mut std::task::Context<'_>) -> std::task::Poll<u64> {
        let s = &self.0;
        s.polls.fetch_add(1, Ordering::SeqCst);
        if s.ready_seen.load(Ordering::SeqCst) != 0 {
            s.polled_after_ready.fetch_add(1, Ordering::SeqCst);
        }
        if s.fired.load(Ordering::SeqCst) >= s.need {
            s.ready_seen.store(1, Ordering::SeqCst);
            return std::task::Poll::Ready(self.1);
        }
        *s.waker.lock().unwrap() = Some(cx.waker().clone());
        // registered: from here on a wake-up may come at any instant, also before this poll returns
        if s.yield_after_register {
            std::thread::yield_now();
        }
        if s.fired.load(Ordering::SeqCst) >= s.need {
            s.ready_seen.store(1, Ordering::SeqCst);
            return std::task::Poll::Ready(self.1);
        }
        std::task::Poll::Pending
    }
}

const STALL_TURNS: u64 = 20_000;
fn scenario_parked_executor(seed: u64) {
    let mut rng = Rng(seed);
    let mut calls = 0u64;
    let mut total_polls = 0u64;
    // part 1: hand-written future, spinning wakers
    for round in 0..3 + rng.below(3) {
        let need = 1 + rng.below(6);
        let slot = Arc::new(Slot { waker: Mutex::new(None), fired: AtomicU64::new(0), need, polled_after_ready: AtomicU64::new(0), ready_seen: AtomicU64::new(0), polls: AtomicU64::new(0), yield_after_register: rng.below(3) != 0 });
        let n_wakers = 1 + rng.below(2);
        let by_ref = rng.below(2) == 0;
        let spurious = rng.below(3) == 0;
        let stale_token = rng.below(3) == 0;
        let caller = std::thread::current();
        let done = Arc::new(AtomicU64::new(0));
        let mut ths = Vec::new();
        for _ in 0..n_wakers {
            let slot = slot.clone();
            ths.push(std::thread::spawn(move || {
                // bounded liveness: after a wake-up the executor polls again within a bounded number of scheduler turns
                // (every yield hands the processor to another thread, and the caller needs a few hundred basic blocks)
                let mut idle = 0u64;
                let mut last_polls = slot.polls.load(Ordering::SeqCst);
                loop {
                    if slot.fired.load(Ordering::SeqCst) >= slot.need {
                        break;
                    }
                    let w = slot.waker.lock().unwrap().take();
                    match w {
                        Some(w) => {
                            slot.fired.fetch_add(1, Ordering::SeqCst);
                            if by_ref {
                                w.wake_by_ref();
                            } else {
                                w.wake();
                            }
                            idle = 0;
                        }
                        None => {
                            let p = slot.polls.load(Ordering::SeqCst);
                            if p != last_polls {
                                last_polls = p;
                                idle = 0;
                            } else {
                                idle += 1;
                                if idle > STALL_TURNS && slot.fired.load(Ordering::SeqCst) > 0 {
                                    violation("C17", "executor-lost-wakeup", format!("the blocking executor did not poll its future again within {STALL_TURNS} scheduler turns of a wake-up ({} of {} wake-ups delivered, {p} polls): the wake-up was lost and the blocking call never returns", slot.fired.load(Ordering::SeqCst), slot.need));
                                    std::process::exit(1);
                                }
                            }
                            std::thread::yield_now();
                        }
                    }
                }
            }));
        }
        if spurious {
            let done = done.clone();
            let caller = caller.clone();
            ths.push(std::thread::spawn(move || {
                let mut k = 0;
                while done.load(Ordering::SeqCst) == 0 && k < 40 {
                    caller.unpark();
                    std::thread::yield_now();
                    k += 1;
                }
            }));
        }
        if stale_token {
            std::thread::current().unpark();
        }
        let want = 7000 + round;
        let got = rsactor::__verif_block_on_parked(Adversary(slot.clone(), want));
        done.store(1, Ordering::SeqCst);
        calls += 1;
        if got != want {
            violation("C17", "executor-wrong-value", format!("the blocking executor returned {got} for a future that completed with {want}"));
        }
        if slot.fired.load(Ordering::SeqCst) < need {
            violation("C17", "executor-early-return", format!("the blocking executor returned before the future was ready ({} of {need} wake-ups)", slot.fired.load(Ordering::SeqCst)));
        }
        if slot.polled_after_ready.load(Ordering::SeqCst) != 0 {
            violation("C17", "executor-polled-after-ready", "the blocking executor polled a future again after it had completed".to_string());
        }
        total_polls += slot.polls.load(Ordering::SeqCst);
        for t in ths {
            t.join().unwrap();
        }
    }
    // part 2: the futures blocking_ask really waits on, completed from a thread after a seeded number of spins
    for round in 0..3 + rng.below(3) {
        let spins = rng.below(60);
        let mode = rng.below(4);
        let (tx, rx) = tokio::sync::oneshot::channel::<u64>();
        let (mtx, mrx) = tokio::sync::mpsc::channel::<u64>(1);
        let want = 8000 + round;
        let t = std::thread::spawn(move || {
            for _ in 0..spins {
                std::thread::yield_now();
            }
            match mode {
                0 => {
                    let _ = tx.send(want);
                    drop(mrx);
                }
                1 => {
                    drop(mrx);
                    drop(tx);
                }
                2 => {
                    drop(tx);
                    drop(mrx);
                }
                _ => {
                    // reply, then the mailbox closes at once: the reply must win (biased select, reply first)
                    let _ = tx.send(want);
                    let mut mrx = mrx;
                    mrx.close();
                }
            }
        });
        let got = rsactor::__verif_block_on_parked(async {
            let mut rx = rx;
            tokio::select! {
                biased;
                r = &mut rx => r.ok(),
                _ = mtx.closed() => rx.try_recv().ok(),
            }
        });
        calls += 1;
        let expect = if mode == 0 || mode == 3 { Some(want) } else { None };
        if got != expect {
            violation("C17", "executor-wrong-value", format!("waiting for 'reply or mailbox closed' on the blocking executor returned {got:?}, expected {expect:?} (mode {mode})"));
        }
        t.join().unwrap();
    }
    ev(format!("parked-executor calls={calls} polls>={}", if total_polls >= calls { "calls" } else { "few" }));
}

// ------------------------------------------------------------------------------------------------
// hang oracle self-test: a blocking_ask(None) on an actor gated shut forever must make Miri report
// a deadlock (used only by the engine's self-test, never by a property check)
fn scenario_selftest_hang(_seed: u64) {
    let rt = rt();
    let (r, _jh, _j, _gate) = new_actor(&rt, 1, true);
    let _ = r.blocking_ask(Job(1, true), None);
    println!("UNREACHABLE");
}

fn main() {
    std::panic::set_hook(Box::new(|info| {
        let msg = info.payload().downcast_ref::<String>().cloned().or(info.payload().downcast_ref::<&str>().map(|s| s.to_string())).unwrap_or_default();
        if !msg.contains("scripted") {
            eprintln!("PANIC: {msg} at {:?}", info.location());
        }
    }));
    let args: Vec<String> = std::env::args().collect();
    let scenario = args.get(1).map(|s| s.as_str()).unwrap_or("blocking");
    let seed: u64 = args.get(2).and_then(|s| s.parse().ok()).unwrap_or(1);
    match scenario {
        // build / interpreter smoke test of the engine: runs nothing of rsactor
        "noop" => {}
        "ids" => scenario_ids(seed),
        "blocking" => scenario_blocking(seed),
        "timeout" => scenario_timeout(seed),
        "in_runtime" => scenario_in_runtime(seed),
        "contended" => scenario_contended(seed),
        "async_mt" => scenario_async_mt(seed),
        "ask_vs_end" => scenario_ask_vs_end(seed),
        "kill_then_drop" => scenario_kill_then_drop(seed),
        "end_vs_observers" => scenario_end_vs_observers(seed),
        "dd_mt" => scenario_dd_mt(seed),
        "erased_blocking" => scenario_erased_blocking(seed),
        "timed_independent" => scenario_timed_independent(seed),
        "kill_busy_from_thread" => scenario_kill_busy_from_thread(seed),
        "blocking_ask_storm" => scenario_blocking_ask_storm(seed),
        "parked_executor" => scenario_parked_executor(seed),
        "timed_blocking_vs_end" => scenario_timed_blocking_vs_end(seed),
        "metrics_mt" => scenario_metrics_mt(seed),
        "blocking_ask_vs_end" => scenario_blocking_ask_vs_end(seed),
        "deadletters" => scenario_deadletters(seed),
        "selftest_hang" => scenario_selftest_hang(seed),
        other => {
            eprintln!("unknown scenario {other}");
            std::process::exit(2);
        }
    }
    if VIOLATIONS.load(Ordering::SeqCst) > 0 {
        std::process::exit(1);
    }
    println!("OK");
}
