//! Monitors: pure functions History -> violations (DESIGN.md section 5). Every rule is a consequence
//! of one sentence of a property and is asserted only on definite observations (section 4).
use crate::actor::job_value;
use crate::history::*;
use crate::model::*;
use crate::world::{EvKind, JoinRes, OpTag, Out, Res, RunOutEv};
use std::collections::BTreeMap;

#[derive(Clone, Debug, serde::Serialize, serde::Deserialize, PartialEq)]
pub struct Violation {
    pub prop: String,
    /// stable classification (minimisation keeps it; known-findings match on it)
    pub sig: String,
    pub text: String,
    pub seq: u64,
}

#[derive(Default, Debug, Clone)]
pub struct Checked(pub BTreeMap<&'static str, u64>);
impl Checked {
    pub fn hit(&mut self, p: &'static str) {
        *self.0.entry(p).or_insert(0) += 1;
    }
    pub fn get(&self, p: &str) -> u64 {
        self.0.get(p).copied().unwrap_or(0)
    }
}

pub struct Ctx<'h, 'a> {
    pub h: &'h History<'a>,
    pub out: Vec<Violation>,
    pub chk: Checked,
}

impl Ctx<'_, '_> {
    fn v(&mut self, prop: &str, sig: &str, seq: u64, text: String) {
        self.out.push(Violation { prop: prop.to_string(), sig: sig.to_string(), text, seq });
    }
}

fn is_stall(o: &Op) -> bool {
    matches!(o, Op::Stall | Op::Wait(_))
}
fn is_panic(o: &Op) -> bool {
    matches!(o, Op::Panic)
}

/// the run reached a true end state (all done, or nothing can ever run again)
fn conclusive(h: &History) -> bool {
    !h.inconclusive && !h.phase_end.is_empty() && h.phase_end.iter().all(|(_, k)| k != "step-limit")
}

fn graceful_end(h: &History, a: u32) -> bool {
    let ar = &h.actors[a as usize];
    if !ar.started_ok() || ar.panicked() || ar.run_err().is_some() || !h.kills(a).is_empty() {
        return false;
    }
    matches!(&ar.joined, Some((_, _, JoinRes::Completed { killed: false, .. })))
        || matches!(&ar.joined, Some((_, _, JoinRes::Failed { phase, killed: false, .. })) if phase == "OnStop")
}


/// Was the message of this send-family operation *definitely* put into the mailbox in the very poll in
/// which the operation was invoked? True when, at that moment, at most capacity-1 slots could be occupied,
/// no other sender was waiting, the cooperative budget was available, and the actor had not begun to end:
/// tokio's fair semaphore then grants the permit immediately. (Used where acceptance of an ask cannot be
/// observed through its result: timed-out or cancelled asks.)
pub fn accepted_at_invocation(h: &History, o: &OpRec) -> bool {
    let a = match o.a {
        Some(a) => a,
        None => return false,
    };
    let ar = &h.actors[a as usize];
    if h.split && o.us.is_none() {
        // slot reserved at the invocation, but the push may have come later (after a stop marker, say)
        return false;
    }
    if !o.budget || !ar.spawned || o.inv_seq >= ar.closing_seq() || matches!(o.res(), Some(Res::NoHandle) | Some(Res::Unsupported) | Some(Res::ErrSend)) {
        return false;
    }
    let cap = h.cap_of(a) as i64;
    let s = o.inv_seq;
    // upper bound on occupancy at s: every send invoked before s whose message has not been taken before s
    let mut occ_hi = 0i64;
    for p in h.ops.iter().filter(|p| p.a == Some(a) && p.inv_seq < s && !std::ptr::eq(*p, o)) {
        if matches!(p.res(), Some(Res::NoHandle) | Some(Res::Unsupported)) {
            continue;
        }
        if p.tag.is_send() {
            // rejected before s: never entered
            if let Some((rs, _, _, res, _)) = &p.ret {
                if *rs < s && matches!(res, Res::ErrSend) {
                    continue;
                }
                if *rs < s && p.tag.is_tell() && matches!(res, Res::ErrTimeout { .. }) {
                    continue;
                }
            }
            let taken_before = p.mid.and_then(|m| h.msgs.get(&m)).and_then(|m| m.henter.first()).map(|x| x.0 < s).unwrap_or(false);
            if taken_before {
                continue;
            }
            // still waiting for a slot, or queued
            if p.end_seq().map(|e| e > s).unwrap_or(true) && !(p.tag.is_tell() && p.ret_ok()) {
                // an operation still in flight at s might be a waiter: not definite
                if p.tag.is_tell() || !taken_before {
                    // asks in flight may be queued (occupying) or waiting; either way count and flag
                    occ_hi += 1;
                    if p.tag.is_tell() {
                        return false; // a tell still in flight is a waiter for a slot
                    }
                    continue;
                }
            }
            occ_hi += 1;
        } else if p.tag == OpTag::Stop {
            if p.end_seq().map(|e| e > s).unwrap_or(true) {
                return false; // a stop still waiting for a slot
            }
            occ_hi += 1;
        }
    }
    occ_hi < cap
}

// =================================================================================================
// C01 / C02

pub fn c01_c02(c: &mut Ctx) {
    let h = c.h;
    // (a) at most once - unconditional
    for (mid, m) in &h.msgs {
        if m.henter.len() > 1 {
            c.v("C01", "handled-twice", m.henter[1].0, format!("message {mid} entered a handler {} times", m.henter.len()));
        }
        if !m.henter.is_empty() {
            c.chk.hit("C01");
        }
    }
    // (b) rejected => never handled
    for o in &h.ops {
        let mid = match o.mid {
            Some(m) => m,
            None => continue,
        };
        let handled = h.msgs.get(&mid).map(|m| !m.henter.is_empty()).unwrap_or(false);
        match (o.tag, o.res()) {
            (OpTag::Tell | OpTag::TellT, Some(Res::ErrSend)) | (OpTag::Tell | OpTag::TellT, Some(Res::ErrTimeout { .. })) => {
                c.chk.hit("C01");
                if handled {
                    c.v("C01", "rejected-tell-handled", o.inv_seq, format!("tell of message {mid} returned {:?} but the message was handled", o.res().unwrap()));
                }
            }
            (OpTag::Ask | OpTag::AskT | OpTag::AskJoin, Some(Res::ErrSend)) => {
                c.chk.hit("C01");
                if handled {
                    c.v("C01", "rejected-ask-handled", o.inv_seq, format!("ask of message {mid} returned Err(Send) but the message was handled"));
                }
            }
            _ => {}
        }
    }
    // (c) accepted before stop / last drop => handled exactly once before on_stop (graceful endings only)
    for a in 0..h.actors.len() as u32 {
        if !graceful_end(h, a) {
            continue;
        }
        let ar = &h.actors[a as usize];
        let stop_enter = match ar.stop_enter() {
            Some(s) => s.0,
            None => continue, // C04's business
        };
        let first_stop_inv = h.stops(a).iter().map(|o| o.inv_seq).min();
        for o in h.sends_to(a) {
            let mid = o.mid.unwrap();
            let (ret_seq, ok) = match &o.ret {
                Some(r) => (r.0, r.3.is_ok()),
                None => (o.cancelled.map(|c| c.0).unwrap_or(u64::MAX), false),
            };
            let definite = if ok {
                // definitely accepted before stop() was requested / before the last reference went away
                // (the sender itself holds a reference until its send returns)
                if o.tag.is_tell() {
                    first_stop_inv.map(|s| ret_seq < s).unwrap_or(true) && ret_seq < stop_enter
                } else {
                    true
                }
            } else if o.tag.is_ask() && (o.cancelled.is_some() || matches!(o.res(), Some(Res::ErrTimeout { .. }))) {
                // an ask that was abandoned (timeout, cancellation) after its message had definitely entered
                // the mailbox: the message is accepted work all the same
                o.inv_seq < stop_enter && first_stop_inv.map(|s| o.inv_seq < s).unwrap_or(true) && accepted_at_invocation(h, o)
            } else {
                false
            };
            if !definite {
                continue;
            }
            c.chk.hit("C01");
            c.chk.hit("C02");
            c.chk.hit("C07");
            let m = h.msgs.get(&mid);
            let he = m.map(|m| m.henter.clone()).unwrap_or_default();
            if he.len() != 1 {
                if he.is_empty() {
                    let how = if ok { format!("{:?} returned Ok at seq {ret_seq}", o.tag) } else { format!("{:?} invoked at seq {} found a free slot and was abandoned later (timeout / cancellation)", o.tag, o.inv_seq) };
                    let text = format!("message {mid} was accepted by actor {a} ({how}) before stop/last-drop but never handled although the actor ended gracefully");
                    c.v("C01", "accepted-not-handled", ret_seq, text.clone());
                    c.v("C07", "accepted-work-not-finished", ret_seq, text.clone());
                    c.v("C02", "accepted-before-stop-not-handled", ret_seq, text);
                }
            } else if he[0].0 > stop_enter {
                let text = format!("message {mid} handled after on_stop began on actor {a}");
                c.v("C01", "handled-after-on_stop", he[0].0, text.clone());
                c.v("C02", "handled-after-on_stop", he[0].0, text);
            }
        }
    }
    // C02 (a): real-time order => handling order
    for a in 0..h.actors.len() as u32 {
        let handled: Vec<(&OpRec, u64)> = h
            .sends_to(a)
            .filter_map(|o| {
                let m = h.msgs.get(&o.mid?)?;
                if m.henter.len() == 1 && m.henter[0].2 == a {
                    Some((o, m.henter[0].0))
                } else {
                    None
                }
            })
            .collect();
        for (o1, h1) in &handled {
            let end1 = match o1.end_seq() {
                Some(e) => e,
                None => continue,
            };
            for (o2, h2) in &handled {
                if end1 < o2.inv_seq {
                    c.chk.hit("C02");
                    if h1 > h2 {
                        c.v(
                            "C02",
                            "order-inverted",
                            *h2,
                            format!(
                                "actor {a}: message {} (send finished at seq {end1}) was handled after message {} (send began at seq {})",
                                o1.mid.unwrap(),
                                o2.mid.unwrap(),
                                o2.inv_seq
                            ),
                        );
                    }
                }
            }
        }
        // C02 (b): nothing sent after stop() returned is ever handled
        let stop_ret = h.stops(a).iter().filter(|o| matches!(o.res(), Some(Res::Ok))).filter_map(|o| o.ret.as_ref().map(|r| r.0)).min();
        if let Some(sr) = stop_ret {
            for o in h.sends_to(a) {
                if o.inv_seq > sr {
                    c.chk.hit("C02");
                    if let Some(m) = h.msgs.get(&o.mid.unwrap()) {
                        if !m.henter.is_empty() {
                            c.v("C02", "handled-after-stop-returned", m.henter[0].0, format!("actor {a}: message {} was sent after stop() had returned (seq {sr}) and was handled", o.mid.unwrap()));
                        }
                    }
                }
            }
        }
    }
}

// =================================================================================================
// C03

pub fn c03(c: &mut Ctx) {
    let h = c.h;
    for o in &h.ops {
        let mid = match o.mid {
            Some(m) => m,
            None => continue,
        };
        match (o.tag, o.res()) {
            (OpTag::Ask | OpTag::AskT, Some(Res::Reply { mid: rm, nonce, .. })) => {
                c.chk.hit("C03");
                let ret_seq = o.ret.as_ref().unwrap().0;
                let produced = h.msgs.get(&mid).map(|m| m.hexit.iter().any(|(s, _, n, out)| *n == *nonce && *s < ret_seq && *out == Out::Ok)).unwrap_or(false);
                if *rm != mid || !produced {
                    c.v("C03", "reply-mismatch", ret_seq, format!("ask of message {mid} returned a reply (mid {rm}, nonce {nonce}) that its handler did not produce before the return"));
                }
            }
            (OpTag::AskJoin, Some(res)) => {
                let spec = h.msg_spec.get(&mid);
                let out = spec.and_then(|m| if let MsgKind::Join { out, .. } = &m.kind { Some(out.clone()) } else { None });
                let ret_seq = o.ret.as_ref().unwrap().0;
                match (res, out) {
                    (Res::JoinVal(v), Some(jo)) => {
                        c.chk.hit("C03");
                        let ended = h.msgs.get(&mid).and_then(|m| m.job_end).map(|s| s < ret_seq).unwrap_or(false);
                        if *v != job_value(mid) || jo != JobOut::Value || !ended {
                            c.v("C03", "ask_join-wrong-output", ret_seq, format!("ask_join of {mid} returned {v}, expected the spawned task's output"));
                        }
                    }
                    (Res::ErrJoinPanic, Some(jo)) => {
                        c.chk.hit("C03");
                        if jo != JobOut::Panic {
                            c.v("C03", "ask_join-wrong-error", ret_seq, format!("ask_join of {mid} reported a panicked task, script says {jo:?}"));
                        }
                    }
                    (Res::ErrJoinCancelled, Some(jo)) => {
                        c.chk.hit("C03");
                        if jo != JobOut::Abort {
                            c.v("C03", "ask_join-wrong-error", ret_seq, format!("ask_join of {mid} reported a cancelled task, script says {jo:?}"));
                        }
                    }
                    (other, Some(jo)) => {
                        // once the handler has returned its JoinHandle the ask part is over: the only
                        // legitimate results are the task's output or its join error
                        let handler_done = h.msgs.get(&mid).map(|m| m.hexit.iter().any(|x| x.3 == Out::Ok && x.0 < ret_seq)).unwrap_or(false);
                        if handler_done && !matches!(other, Res::Unsupported | Res::NoHandle) {
                            c.chk.hit("C03");
                            c.v("C03", "ask_join-wrong-error", ret_seq, format!("ask_join of {mid}: the handler returned its JoinHandle (task scripted to end with {jo:?}) but ask_join returned {other:?}"));
                        }
                    }
                    _ => {}
                }
            }
            _ => {}
        }
    }
    if !conclusive(h) {
        return;
    }
    // (c) no ask (or any send) stays pending on an actor that has ended
    for o in &h.ops {
        if !(o.tag.is_send() || o.tag == OpTag::Stop) || !o.pending() {
            continue;
        }
        let a = match o.a {
            Some(a) => a,
            None => continue,
        };
        let ar = &h.actors[a as usize];
        if ar.ended() {
            c.chk.hit("C03");
            let prop = if o.tag.is_ask() { "C03" } else { "C11" };
            let text = format!("{:?} (message {:?}) on actor {a} is still pending at quiescence although the actor has ended", o.tag, o.mid);
            c.v(prop, "pending-on-dead-actor", o.inv_seq, text.clone());
            if o.tag.is_ask() && !h.kills(a).is_empty() {
                c.v("C06", "ask-left-pending-after-kill", o.inv_seq, text);
            }
        }
    }
    // a reply that was produced must reach its asker
    for o in &h.ops {
        if !matches!(o.tag, OpTag::Ask | OpTag::AskT) || !o.pending() {
            continue;
        }
        if let Some(m) = o.mid.and_then(|m| h.msgs.get(&m)) {
            if m.hexit.iter().any(|x| x.3 == Out::Ok) {
                c.chk.hit("C03");
                c.v("C03", "reply-lost", o.inv_seq, format!("ask of message {:?} is still pending at quiescence although its handler returned", o.mid));
            }
        }
    }
    // (d) sends after the JoinHandle resolved fail
    for o in &h.ops {
        if !o.tag.is_send() {
            continue;
        }
        let a = match o.a {
            Some(a) => a,
            None => continue,
        };
        if let Some((js, _, _)) = &h.actors[a as usize].joined {
            if o.inv_seq > *js {
                if let Some(res) = o.res() {
                    if matches!(res, Res::NoHandle | Res::Unsupported) {
                        continue;
                    }
                    c.chk.hit("C03");
                    c.chk.hit("C11");
                    if res.is_ok() {
                        let prop = if o.tag.is_ask() { "C03" } else { "C11" };
                        c.v(prop, "send-after-end-succeeded", o.inv_seq, format!("{:?} on actor {a} invoked after its JoinHandle resolved returned {:?}", o.tag, res));
                    }
                }
            }
        }
    }
}

// =================================================================================================
// C04 / C05 / C06

pub fn c04_c05_c06(c: &mut Ctx) {
    let h = c.h;
    let concl = conclusive(h);
    for a in 0..h.actors.len() as u32 {
        let ar = &h.actors[a as usize];
        if !ar.spawned {
            continue;
        }
        let starts = ar.hooks.iter().filter(|(_, _, e)| *e == HookEv::StartEnter).count();
        if starts > 1 || (concl && starts != 1) {
            c.v("C04", "on_start-count", 0, format!("actor {a}: on_start entered {starts} times"));
        }
        c.chk.hit("C04");
        let mut started = false;
        let mut start_failed = false;
        let mut stop_seen = 0;
        let mut panicked_before = false;
        for (seq, _, e) in &ar.hooks {
            let exec_ev = matches!(e, HookEv::HEnter(_) | HookEv::RunEnter(_) | HookEv::RunStep(_, _) | HookEv::StopEnter(_));
            if exec_ev && !started {
                c.v("C04", "hook-before-start-done", *seq, format!("actor {a}: {e:?} before on_start completed successfully"));
            }
            if exec_ev && start_failed {
                c.v("C04", "hook-after-failed-start", *seq, format!("actor {a}: {e:?} after on_start failed"));
            }
            if matches!(e, HookEv::HEnter(_) | HookEv::RunEnter(_) | HookEv::RunStep(_, _)) && stop_seen > 0 {
                c.v("C04", "work-after-on_stop", *seq, format!("actor {a}: {e:?} after on_stop began"));
            }
            match e {
                HookEv::StartExit(Out::Ok) => started = true,
                HookEv::StartExit(_) => start_failed = true,
                HookEv::StopEnter(_) => {
                    stop_seen += 1;
                    if stop_seen > 1 {
                        c.v("C04", "on_stop-twice", *seq, format!("actor {a}: on_stop entered {stop_seen} times"));
                    }
                    if panicked_before {
                        c.v("C04", "on_stop-after-panic", *seq, format!("actor {a}: on_stop ran after a panic"));
                    }
                }
                HookEv::HExit(_, Out::Panic) | HookEv::RunExit(_, RunOutEv::Panic) | HookEv::StartExit(Out::Panic) => {}
                _ => {}
            }
            if matches!(e, HookEv::HExit(_, Out::Panic) | HookEv::RunExit(_, RunOutEv::Panic) | HookEv::StartExit(Out::Panic) | HookEv::StopExit(Out::Panic)) {
                panicked_before = true;
            }
        }
        // on_stop runs exactly when the actor ends without panic after a successful start
        if ar.ended() && ar.started_ok() && !ar.panicked() && !matches!(ar.joined, Some((_, _, JoinRes::Panic(_))) | Some((_, _, JoinRes::Cancelled))) {
            c.chk.hit("C04");
            if ar.stop_enter().is_none() {
                c.v("C04", "on_stop-skipped", ar.joined.as_ref().unwrap().0, format!("actor {a} ended ({:?}) without running on_stop", ar.joined.as_ref().unwrap().2));
            }
        }
        // killed flag <=> a kill signal was consumed
        if let Some((ss, _, killed)) = ar.stop_enter() {
            let kill_before = h.kills(a).iter().any(|o| o.inv_seq < ss);
            c.chk.hit("C04");
            if killed && !kill_before {
                c.v("C04", "killed-without-kill", ss, format!("actor {a}: on_stop(killed=true) but no kill() was invoked before it"));
            }
            // a kill that returned before on_stop began, in another poll, must be the one consumed -
            // unless on_stop is the clean-up of an on_run error raised in that same poll.
            let after_run_err = {
                let idx = ar.hooks.iter().position(|(s, _, _)| *s == ss).unwrap();
                idx > 0 && matches!(ar.hooks[idx - 1].2, HookEv::RunExit(_, RunOutEv::Err(_)))
            };
            let stop_step = h.step_of(ss).unwrap_or(0);
            let kill_ret_before = h.kills(a).iter().any(|o| matches!(&o.ret, Some(r) if r.0 < ss && r.2 != stop_step && r.3 == Res::Ok));
            if kill_ret_before && !after_run_err {
                c.chk.hit("C06");
                if !killed {
                    let t = format!("actor {a}: kill() had returned before on_stop began, yet on_stop received killed=false");
                    c.v("C04", "kill-not-reported", ss, t.clone());
                    c.v("C06", "kill-not-reported", ss, t);
                }
            }
        }
        // ---------------- C05: the JoinHandle's value, computed from the hook trace
        if let Some((js, _, res)) = &ar.joined {
            c.chk.hit("C05");
            let mut expect_journal: Vec<String> = Vec::new();
            for (_, _, e) in &ar.hooks {
                match e {
                    HookEv::StartExit(Out::Ok) => expect_journal.push("start".into()),
                    HookEv::HEnter(m) => expect_journal.push(format!("h:{m}")),
                    HookEv::RunEnter(n) => expect_journal.push(format!("run:{n}")),
                    HookEv::StopEnter(k) => expect_journal.push(format!("stop:{k}")),
                    _ => {}
                }
            }
            let start = ar.start_exit().map(|x| x.1.clone());
            let stop_enter = ar.stop_enter();
            let stop_exit = ar.stop_exit().map(|x| x.1.clone());
            let expected: Option<JoinRes> = if ar.panicked() {
                Some(JoinRes::Panic(String::new()))
            } else if let Some(Out::Err(code)) = start {
                Some(JoinRes::Failed { phase: "OnStart".into(), code, killed: false, journal: None, acc_ok: true })
            } else if let Some((_, code)) = ar.run_err() {
                match stop_exit {
                    Some(Out::Ok) => Some(JoinRes::Failed { phase: "OnRun".into(), code, killed: false, journal: Some(expect_journal.clone()), acc_ok: true }),
                    Some(Out::Err(_)) => Some(JoinRes::Failed { phase: "OnRunThenOnStop".into(), code, killed: false, journal: Some(expect_journal.clone()), acc_ok: true }),
                    _ => None,
                }
            } else {
                match (stop_enter, stop_exit) {
                    (Some((_, _, k)), Some(Out::Ok)) => Some(JoinRes::Completed { killed: k, journal: expect_journal.clone(), acc_ok: true }),
                    (Some((_, _, k)), Some(Out::Err(code))) => Some(JoinRes::Failed { phase: "OnStop".into(), code, killed: k, journal: Some(expect_journal.clone()), acc_ok: true }),
                    _ => None,
                }
            };
            match (&expected, res) {
                (Some(JoinRes::Panic(_)), JoinRes::Panic(_)) => {}
                (Some(JoinRes::Panic(_)), other) => c.v("C05", "panic-not-surfaced", *js, format!("actor {a} panicked in a hook but its JoinHandle produced {other:?}")),
                (_, JoinRes::Panic(m)) => {
                    // a panic nobody scripted: the actor ended on its own
                    c.v("C07", "unexpected-panic", *js, format!("actor {a}: JoinHandle reports a panic that no hook raised: {m}"));
                }
                (Some(e), got) => {
                    if e != got {
                        c.v("C05", "result-mismatch", *js, format!("actor {a}: JoinHandle produced {got:?}, the hook trace implies {e:?}"));
                    }
                }
                (None, got) => {
                    c.v("C05", "result-without-cause", *js, format!("actor {a}: JoinHandle produced {got:?} but the hook trace shows no completed ending"));
                }
            }
        }
        // ---------------- C06: kill pre-empts
        for o in h.kills(a) {
            c.chk.hit("C06");
            match o.res() {
                Some(Res::Ok) => {}
                other => c.v("C06", "kill-failed", o.inv_seq, format!("kill() on actor {a} returned {other:?}")),
            }
        }
        // on_stop(killed=true) begins as soon as the hook in progress at the moment of the kill finishes
        // (virtual time is exact: computation costs nothing, so "as soon as" is an equality of instants)
        if let (Some(k), Some((ss, st, true))) = (h.kills(a).iter().filter(|o| matches!(o.res(), Some(Res::Ok))).filter_map(|o| o.ret.as_ref().map(|r| (r.0, r.1))).min(), ar.stop_enter()) {
            if k.0 < ss && ar.started_ok() {
                // which hook was open when kill() returned?
                let open = ar.hook_open_at(k.0).cloned();
                let blocking_hook_end: Option<u64> = match open {
                    Some(HookEv::StartEnter) => ar.hooks.iter().find(|(s, _, e)| *s > k.0 && matches!(e, HookEv::StartExit(_))).map(|x| x.1),
                    Some(HookEv::HEnter(m)) => ar.hooks.iter().find(|(s, _, e)| *s > k.0 && matches!(e, HookEv::HExit(mm, _) if *mm == m)).map(|x| x.1),
                    _ => Some(k.1), // idle or inside on_run: nothing has to finish first
                };
                // before on_start has even begun the kill simply waits for on_start
                let started_before = ar.hooks.first().map(|x| x.0 < k.0).unwrap_or(false);
                if let (Some(t_end), true) = (blocking_hook_end, started_before) {
                    c.chk.hit("C06");
                    let due = t_end.max(k.1);
                    if st > due {
                        c.v("C06", "kill-delayed", ss, format!("actor {a}: kill() returned at t={}us, the hook in progress finished at t={t_end}us, but on_stop(killed=true) only began at t={st}us", k.1));
                    }
                }
            }
        }
        let first_kill_ret = h.kills(a).iter().filter_map(|o| o.ret.as_ref().map(|r| r.0)).min();
        if let Some(s) = first_kill_ret {
            let stopping_already = ar.stop_enter().map(|x| x.0 < s).unwrap_or(false) || ar.joined.as_ref().map(|j| j.0 < s).unwrap_or(false);
            if !stopping_already {
                let later = ar.hooks.iter().filter(|(seq, _, e)| *seq > s && matches!(e, HookEv::HEnter(_))).count();
                c.chk.hit("C06");
                if later > 1 {
                    c.v("C06", "handlers-after-kill", s, format!("actor {a} started {later} message handlers after kill() had returned (seq {s})"));
                }
            }
        }
    }
    // panics on client tasks: an API call blew up in the caller
    for (seq, task, msg) in &h.other_panics {
        let scripted = msg.contains("scripted");
        if !scripted {
            let prop = if msg.contains("Deadlock detected") { "C15" } else { "C06" };
            c.v(prop, "caller-panicked", *seq, format!("task {task} panicked inside an API call: {msg}"));
        }
    }
}

// =================================================================================================
// C07

pub fn c07(c: &mut Ctx) {
    let h = c.h;
    if !conclusive(h) {
        return;
    }
    let end = h.last_seq();
    let phase0 = h.phase_end.first().map(|p| p.0).unwrap_or(end);
    let table_end = h.slots_at(end);
    let table_p0 = h.slots_at(phase0);
    for a in 0..h.actors.len() as u32 {
        let ar = &h.actors[a as usize];
        if !ar.spawned || !ar.started_ok() || ar.panicked() || ar.run_err().is_some() || !h.kills(a).is_empty() {
            continue;
        }
        let stuck = !ar.ended() && ar.in_hook_at_end();
        if stuck {
            continue; // the hook in progress never finishes: no claim
        }
        let strong_now = table_end.values().any(|s| s.actor == a && s.strong);
        let pending_ops = h.ops.iter().any(|o| o.a == Some(a) && o.pending() && (o.tag.is_send() || o.tag == OpTag::Stop));
        let stop_invoked = !h.stops(a).is_empty();
        let stop_accepted = h.stops(a).iter().any(|o| matches!(o.res(), Some(Res::Ok)));
        if (!strong_now && !pending_ops) || stop_accepted {
            c.chk.hit("C07");
            match (&ar.joined, ar.stop_enter()) {
                (Some(_), Some((_, _, false))) => {}
                (Some((js, _, r)), se) => c.v("C07", "ended-wrongly", *js, format!("actor {a} (stopped/unreferenced, never killed) ended with {r:?}, on_stop {se:?}")),
                (None, _) => c.v(
                    "C07",
                    "did-not-end",
                    end,
                    format!("actor {a} is still running at quiescence although {}", if stop_accepted { "stop() was accepted" } else { "no strong reference to it remains" }),
                ),
            }
        } else if strong_now && !stop_invoked {
            c.chk.hit("C07");
            if let Some((js, _, r)) = &ar.joined {
                c.v("C07", "ended-on-its-own", *js, format!("actor {a} ended ({r:?}) while a strong reference existed and no stop/kill/error/panic had occurred"));
            } else if let Some((ss, _, _)) = ar.stop_enter() {
                c.v("C07", "ended-on-its-own", ss, format!("actor {a} ran on_stop while a strong reference existed and no stop/kill/error/panic had occurred"));
            }
        }
        // "... and only then" has a second half: an actor that ends because nothing refers to it any more begins
        // on_stop at the virtual instant of the last thing that kept it going - the last strong handle going away, the
        // hook in progress finishing, the last operation on it completing. Later means that something hidden held it.
        if let (Some((ss, st, false)), false) = (ar.stop_enter(), stop_invoked) {
            let in_flight = h.ops.iter().any(|o| o.a == Some(a) && o.inv_seq < ss && o.end_seq().map(|e| e > ss).unwrap_or(true) && (o.tag.is_send() || o.tag == OpTag::Stop));
            let referenced_at_stop = h.slots_at(ss.saturating_sub(1)).values().any(|s| s.actor == a && s.strong);
            if !in_flight && !referenced_at_stop {
                let mut t_ref = 0u64;
                for e in h.ev.iter().filter(|e| e.seq < ss && matches!(e.k, EvKind::Handle { .. })) {
                    let before = h.slots_at(e.seq.saturating_sub(1)).values().any(|s| s.actor == a && s.strong);
                    let after = h.slots_at(e.seq).values().any(|s| s.actor == a && s.strong);
                    if before && !after {
                        t_ref = t_ref.max(e.t);
                    }
                }
                // on_run does not count: it is an idle handler, cancelled the moment the mailbox reports "no reference
                // left" - rounds of on_run that go on after that instant are exactly what this rule is looking for
                let t_hook = ar
                    .hooks
                    .iter()
                    .filter(|(s, _, e)| *s < ss && !matches!(e, HookEv::RunEnter(_) | HookEv::RunStep(..) | HookEv::RunExit(..)))
                    .map(|(_, t, _)| *t)
                    .max()
                    .unwrap_or(0);
                let t_ops = h
                    .ops
                    .iter()
                    .filter(|o| o.a == Some(a) && o.end_seq().map(|e| e < ss).unwrap_or(false))
                    .map(|o| o.ret.as_ref().map(|r| r.1).or(o.cancelled.map(|c| c.1)).unwrap_or(0))
                    .max()
                    .unwrap_or(0);
                let cause = t_ref.max(t_hook).max(t_ops);
                c.chk.hit("C07");
                if st > cause {
                    c.v("C07", "end-delayed", ss, format!("actor {a}: the last strong handle went away at t={t_ref}us, its last hook activity other than on_run was at t={t_hook}us and the last operation on it ended at t={t_ops}us, yet on_stop only began at t={st}us: something hidden kept it alive"));
                }
            }
        }
        // probe phase: messages through remaining strong handles are still served
        if h.phase_end.len() >= 2 {
            let strong_p0: Vec<u32> = table_p0.iter().filter(|(_, s)| s.actor == a && s.strong).map(|(k, _)| *k).collect();
            let quiet = !stop_invoked && !ar.ended();
            for o in h.ops.iter().filter(|o| matches!(o.who, crate::world::Who::Probe(_)) && o.a == Some(a)) {
                if !quiet || strong_p0.is_empty() {
                    continue;
                }
                let scripted = h.find_op(o.who, o.k);
                let slot_is_strong = match scripted {
                    Some(Op::Ask { h: s, .. }) | Some(Op::Tell { h: s, .. }) | Some(Op::IsAlive { h: s }) => table_p0.get(s).map(|m| m.strong && m.actor == a).unwrap_or(false),
                    _ => false,
                };
                if !slot_is_strong {
                    continue;
                }
                // the probe's message must itself be harmless
                let harmless = o.mid.and_then(|m| h.msg_spec.get(&m)).map(|m| m.steps.is_empty()).unwrap_or(true);
                if !harmless {
                    continue;
                }
                c.chk.hit("C07");
                match (o.tag, o.res()) {
                    (OpTag::Ask, Some(Res::Reply { .. })) | (OpTag::Tell, Some(Res::Ok)) | (OpTag::IsAlive, Some(Res::Bool(true))) => {}
                    (OpTag::Ask | OpTag::Tell | OpTag::IsAlive, other) => {
                        c.v("C07", "live-actor-refused-work", o.inv_seq, format!("actor {a} is referenced and was never stopped, yet a probe {:?} got {other:?}", o.tag))
                    }
                    _ => {}
                }
                if o.tag == OpTag::Tell {
                    if let Some(m) = o.mid.and_then(|m| h.msgs.get(&m)) {
                        if m.henter.is_empty() {
                            c.v("C07", "live-actor-refused-work", o.inv_seq, format!("actor {a}: probe tell was accepted but never handled"));
                        }
                    }
                }
            }
        }
        // an idle, live actor has handled everything it definitely accepted
        if !ar.ended() && ar.stop_enter().is_none() {
            for o in h.sends_to(a) {
                let handled = o.mid.and_then(|m| h.msgs.get(&m)).map(|m| !m.henter.is_empty()).unwrap_or(false);
                if handled {
                    continue;
                }
                let accepted_tell = o.tag.is_tell() && o.ret_ok();
                let pending_ask = o.tag.is_ask() && o.pending();
                if accepted_tell || pending_ask {
                    // a pending ask may still be waiting for a mailbox slot only if the mailbox is full,
                    // which an idle actor's mailbox is not
                    c.chk.hit("C07");
                    c.v("C07", "idle-actor-ignores-message", o.inv_seq, format!("actor {a} is alive and idle at quiescence but message {:?} ({:?}) was never handled", o.mid, o.tag));
                }
            }
        }
    }
}

// =================================================================================================
// C08

pub fn c08(c: &mut Ctx) {
    let h = c.h;
    let concl = conclusive(h);
    for a in 0..h.actors.len() as u32 {
        let ar = &h.actors[a as usize];
        let mut disabled_at: Option<u64> = None;
        let tells: Vec<(&OpRec, u64)> = h.sends_to(a).filter(|o| o.tag.is_tell() && o.ret_ok() && !o.self_send()).map(|o| (o, o.ret.as_ref().unwrap().0)).collect();
        let kills: Vec<u64> = h.kills(a).iter().filter(|o| o.who.actor_ctx() != Some(a)).filter_map(|o| o.ret.as_ref().map(|r| r.0)).collect();
        let self_kills: Vec<u64> = h.kills(a).iter().filter(|o| o.who.actor_ctx() == Some(a)).filter_map(|o| o.ret.as_ref().map(|r| r.0)).collect();
        let self_tells: Vec<(&OpRec, u64)> = h.sends_to(a).filter(|o| o.tag.is_tell() && o.ret_ok() && o.self_send()).map(|o| (o, o.ret.as_ref().unwrap().0)).collect();
        let stop_enter = ar.stop_enter().map(|s| s.0);
        for (idx, (seq, _, e)) in ar.hooks.iter().enumerate() {
            match e {
                HookEv::RunEnter(_) | HookEv::RunStep(_, _) => {
                    c.chk.hit("C08");
                    if let Some(d) = disabled_at {
                        c.v("C08", "on_run-after-false", *seq, format!("actor {a}: on_run body executed ({e:?}) after it had returned Ok(false) at seq {d}"));
                    }
                    let step_of = |s: u64| h.step_of(s);
                    for (o, r) in &tells {
                        if r < seq && step_of(*r) != step_of(*seq) {
                            let he = h.msgs.get(&o.mid.unwrap()).and_then(|m| m.henter.first().map(|x| x.0));
                            if he.map(|x| x > *seq).unwrap_or(true) {
                                c.v("C08", "on_run-while-message-waiting", *seq, format!("actor {a}: on_run made progress ({e:?}) while message {} (accepted at seq {r}) was waiting", o.mid.unwrap()));
                            }
                        }
                    }
                    for k in &kills {
                        if k < seq && step_of(*k) != step_of(*seq) && stop_enter.map(|s| s > *seq).unwrap_or(true) {
                            c.v("C08", "on_run-while-kill-pending", *seq, format!("actor {a}: on_run made progress ({e:?}) although kill() had returned at seq {k}"));
                        }
                    }
                    // what the actor's own hooks did to it (kill / tell through their own reference) is visible to the loop
                    // before the *next round* of on_run begins, even inside the same poll: the loop looks at both channels
                    // first. (The round in progress may go on: it is only pre-empted at its await points.)
                    if matches!(e, HookEv::RunEnter(_)) {
                        for k in &self_kills {
                            if k < seq && stop_enter.map(|s| s > *seq).unwrap_or(true) {
                                c.v("C08", "on_run-while-kill-pending", *seq, format!("actor {a}: a new on_run round began ({e:?}) although one of its own hooks had killed the actor at seq {k}"));
                            }
                        }
                        for (o, r) in &self_tells {
                            if r < seq {
                                let he = h.msgs.get(&o.mid.unwrap()).and_then(|m| m.henter.first().map(|x| x.0));
                                if he.map(|x| x > *seq).unwrap_or(true) {
                                    c.v("C08", "on_run-while-message-waiting", *seq, format!("actor {a}: a new on_run round began ({e:?}) while message {} (sent by one of its own hooks, accepted at seq {r}) was waiting", o.mid.unwrap()));
                                }
                            }
                        }
                    }
                }
                HookEv::RunExit(_, RunOutEv::False) => disabled_at = Some(*seq),
                HookEv::RunExit(_, RunOutEv::Err(_)) => {
                    c.chk.hit("C08");
                    match ar.hooks.get(idx + 1) {
                        Some((_, _, HookEv::StopEnter(false))) => {}
                        Some((s2, _, other)) => c.v("C08", "on_run-err-not-followed-by-on_stop", *s2, format!("actor {a}: after on_run returned Err the next hook event was {other:?}")),
                        None => {
                            if concl {
                                c.v("C08", "on_run-err-not-followed-by-on_stop", *seq, format!("actor {a}: on_run returned Err but on_stop(killed=false) never ran"));
                            }
                        }
                    }
                    if concl {
                        match &ar.joined {
                            Some((_, _, JoinRes::Failed { phase, .. })) if phase.starts_with("OnRun") => {}
                            Some((_, _, JoinRes::Panic(_))) if ar.panicked() => {}
                            other => {
                                // on_stop may be stalled by script
                                if !ar.in_hook_at_end() {
                                    c.v("C08", "on_run-err-not-failed", *seq, format!("actor {a}: on_run returned Err but the actor's result is {other:?}"))
                                }
                            }
                        }
                    }
                }
                _ => {}
            }
        }
        // Ok(true) => run again when next idle
        if concl && !ar.ended() {
            if let Some((seq, _, HookEv::RunExit(_, RunOutEv::True))) = ar.hooks.last() {
                c.chk.hit("C08");
                c.v("C08", "on_run-not-rerun", *seq, format!("actor {a} is idle at quiescence after on_run returned Ok(true) but on_run was not invoked again"));
            }
        }
    }
}

// =================================================================================================
// C09

pub fn c09(c: &mut Ctx) {
    let h = c.h;
    for a in 0..h.actors.len() as u32 {
        let ar = &h.actors[a as usize];
        if let Some(msg) = &ar.spawn_panic {
            c.chk.hit("C09");
            let cap = h.sc.actors[a as usize].cap;
            if cap != Some(0) || !msg.contains("Mailbox capacity must be greater than 0") {
                c.v("C09", "spawn-panic", 0, format!("spawning actor {a} with capacity {cap:?} panicked: {msg}"));
            }
            continue;
        }
        if h.sc.actors[a as usize].cap == Some(0) && ar.spawned {
            c.v("C09", "capacity-zero-accepted", 0, format!("spawn_with_mailbox_capacity(0) did not panic for actor {a}"));
        }
        if !ar.spawned {
            continue;
        }
        let cap = h.cap_of(a) as i64;
        let horizon = ar.closing_seq();
        // events: +1 at definite accept (tell/stop Ret Ok), -1 when that message is taken
        let mut deltas: Vec<(u64, i64)> = Vec::new();
        let mut asks: Vec<(u64, u64)> = Vec::new(); // possible occupancy intervals [inv, taken-or-inf)
        for o in h.ops.iter().filter(|o| o.a == Some(a)) {
            if o.tag.is_tell() && o.ret_ok() {
                let r = o.ret.as_ref().unwrap().0;
                deltas.push((r, 1));
                if let Some(he) = h.msgs.get(&o.mid.unwrap()).and_then(|m| m.henter.first()) {
                    deltas.push((he.0, -1));
                }
            } else if o.tag == OpTag::Stop && matches!(o.res(), Some(Res::Ok)) {
                let r = o.ret.as_ref().unwrap().0;
                if r < horizon {
                    deltas.push((r, 1));
                }
            } else if o.tag.is_ask() && !matches!(o.res(), Some(Res::ErrSend) | Some(Res::NoHandle) | Some(Res::Unsupported)) {
                let taken = h.msgs.get(&o.mid.unwrap()).and_then(|m| m.henter.first()).map(|x| x.0).unwrap_or(u64::MAX);
                asks.push((o.inv_seq, taken));
            } else if h.split && o.us.is_none() && o.cancelled.is_some() && (o.tag.is_tell() || o.tag == OpTag::Stop) {
                // cancelled inside the reserve | push window: the message was pushed all the same
                let taken = o.mid.and_then(|m| h.msgs.get(&m)).and_then(|m| m.henter.first()).map(|x| x.0).unwrap_or(u64::MAX);
                asks.push((o.inv_seq, taken));
            }
        }
        deltas.sort();
        let mut occ = 0i64;
        let mut occ_at: Vec<(u64, i64)> = Vec::new();
        for (s, d) in &deltas {
            if *s >= horizon {
                break;
            }
            occ += d;
            occ_at.push((*s, occ));
            if *d > 0 {
                c.chk.hit("C09");
                if occ > cap {
                    c.v("C09", "capacity-exceeded", *s, format!("actor {a}: {occ} messages accepted and not yet taken, capacity {cap}"));
                }
            }
        }
        let occ_lo_at = |s: u64| occ_at.iter().rev().find(|(x, _)| *x <= s).map(|x| x.1).unwrap_or(0);
        let occ_hi_at = |s: u64| occ_lo_at(s) + asks.iter().filter(|(i, t)| *i <= s && *t > s).count() as i64;
        // back-pressure waits: a send that was given no timeout never gives up on a full mailbox
        for o in h.ops.iter().filter(|o| o.a == Some(a) && o.us.is_none() && (o.tag.is_send() || o.tag == OpTag::Stop)) {
            if matches!(o.res(), Some(Res::ErrTimeout { .. })) {
                c.v("C09", "untimed-send-gave-up", o.inv_seq, format!("actor {a}: {:?} of message {:?} was given no timeout, yet it returned Err(Timeout) instead of waiting for room in the mailbox", o.tag, o.mid));
            }
        }
        // a send never waits while a slot is free
        for o in h.ops.iter().filter(|o| o.a == Some(a) && o.tag.is_tell()) {
            if matches!(o.res(), Some(Res::NoHandle) | Some(Res::Unsupported)) || o.inv_seq >= horizon || !o.budget {
                continue;
            }
            let others_pending = h.ops.iter().any(|p| {
                p.a == Some(a) && (p.tag.is_send() || p.tag == OpTag::Stop) && !std::ptr::eq(p, o) && p.inv_seq < o.inv_seq && p.end_seq().map(|e| e > o.inv_seq).unwrap_or(true) && !(p.tag.is_ask() && h.msgs.get(&p.mid.unwrap()).map(|m| m.henter.first().map(|x| x.0 < o.inv_seq).unwrap_or(false)).unwrap_or(false))
            });
            if others_pending {
                continue;
            }
            if occ_hi_at(o.inv_seq) < cap {
                c.chk.hit("C09");
                let polls = o.ret.as_ref().map(|r| r.4);
                // with the reserve | push window open an un-timed send needs one poll more (or is cancelled inside the window)
                let split_ok = h.split && o.us.is_none() && (polls == Some(2) || (polls.is_none() && o.cancelled.is_some()));
                if polls != Some(1) && !split_ok {
                    // still pending/cancelled after the first poll, or needed several polls
                    c.v("C09", "send-waited-with-free-slot", o.inv_seq, format!("actor {a}: {:?} of message {:?} did not complete in its first poll (polls {polls:?}) although at most {} of {cap} slots could be occupied and no other sender was waiting", o.tag, o.mid, occ_hi_at(o.inv_seq)));
                }
            }
        }
        // a send into a full mailbox is never dropped: a tell that found every slot definitely occupied and
        // returned Ok although the actor took nothing out of the mailbox in the meantime cannot have got a slot
        for o in h.ops.iter().filter(|o| o.a == Some(a) && o.tag.is_tell() && o.ret_ok()) {
            let (inv, ret) = (o.inv_seq, o.ret.as_ref().unwrap().0);
            if inv >= horizon || occ_lo_at(inv) < cap {
                continue;
            }
            let took_something = ar.hooks.iter().any(|(s, _, e)| *s > inv && *s < ret && matches!(e, HookEv::HEnter(_) | HookEv::StopEnter(_)));
            c.chk.hit("C09");
            if !took_something {
                c.v("C09", "accepted-without-slot", ret, format!("actor {a}: tell of message {:?} returned Ok although all {cap} slots were definitely occupied when it was invoked and the actor took no message until it returned (the message was dropped)", o.mid));
            }
        }
        // full mailbox waits (does not fail): a tell that returned Err while the actor was demonstrably alive afterwards
        for o in h.ops.iter().filter(|o| o.a == Some(a) && o.tag == OpTag::Tell) {
            if let Some(Res::ErrSend) = o.res() {
                let ret_seq = o.ret.as_ref().unwrap().0;
                let alive_after = ar.hooks.iter().any(|(s, _, e)| *s > ret_seq && matches!(e, HookEv::HEnter(_) | HookEv::StopEnter(_)))
                    && ar.joined.as_ref().map(|j| j.0 > ret_seq).unwrap_or(true)
                    && ar.stop_enter().map(|s| s.0 > ret_seq).unwrap_or(true);
                c.chk.hit("C09");
                if alive_after && ar.started_ok() && !ar.panicked() {
                    c.v("C09", "send-failed-on-live-actor", ret_seq, format!("actor {a}: tell of {:?} returned Err(Send) although the actor kept working afterwards (a full mailbox must wait, not fail)", o.mid));
                }
            }
        }
    }
}

// =================================================================================================
// C02 / C09: refinement against a reference model of the mailbox

/// The mailbox must be explainable as a bounded FIFO queue. For every actor take the handled messages in
/// handler-entry order m1..mk. A bounded FIFO queue admits this history iff there are enqueue moments e_i with
///   inv_i <= e_i < end_i        (the message entered while its send was in progress)
///   e_1 <= e_2 <= ... <= e_k    (first in, first out: handling order is enqueue order)
///   e_i < d_i                   (entered before it was taken; d_i = handler entry, same poll as the take)
///   e_i >= d_(i-cap)            (a slot was free: the message cap places ahead had been taken)
/// Choosing every e_i as early as the lower bounds allow is optimal (the upper bounds are per message), so
/// feasibility is decided by one pass. Messages and stop markers that were never handled are left out, which
/// only removes constraints (they could only take more room). Skipped when the reserve | push window was open
/// in the run: reservation order (capacity) and push order (FIFO) then differ.
pub fn queue_model(c: &mut Ctx) {
    let h = c.h;
    if h.split {
        return;
    }
    for a in 0..h.actors.len() as u32 {
        if !h.actors[a as usize].spawned {
            continue;
        }
        let cap = h.cap_of(a);
        // (dequeue moment, invocation, end of the send, message id)
        let mut items: Vec<(u64, u64, u64, u64)> = Vec::new();
        for (mid, m) in &h.msgs {
            let he = match m.henter.first() {
                Some(x) if x.2 == a => x.0,
                _ => continue,
            };
            let o = match m.op {
                Some(i) => &h.ops[i],
                None => continue,
            };
            if o.a != Some(a) || !o.tag.is_send() {
                continue;
            }
            items.push((he, o.inv_seq, o.end_seq().unwrap_or(u64::MAX), *mid));
        }
        items.sort();
        let mut e: Vec<u64> = Vec::with_capacity(items.len());
        for (i, (d, inv, end, mid)) in items.iter().enumerate() {
            let order = if i > 0 { e[i - 1] } else { 0 };
            let room = if i >= cap { items[i - cap].0 } else { 0 };
            let lo = (*inv).max(order).max(room);
            c.chk.hit("C02");
            c.chk.hit("C09");
            if lo >= *d || lo >= *end {
                // which lower bound made it impossible?
                let without_room = (*inv).max(order);
                if without_room < *d && without_room < *end {
                    c.v("C09", "queue-model:no-room", *inv, format!("actor {a} (capacity {cap}): message {mid} entered the mailbox (send between seq {inv} and {end}, handled at {d}) although the {cap} messages handled before it had not all been taken by then - the mailbox held more than its capacity"));
                } else {
                    c.v("C02", "queue-model:order", *inv, format!("actor {a}: message {mid} (send between seq {inv} and {end}) was handled at seq {d}, which no FIFO queue can produce given the messages handled before it (earliest possible entry after seq {lo})"));
                }
                // keep going with a feasible value so that one anomaly is reported once
                e.push(without_room.min(d.saturating_sub(1)));
                break;
            }
            e.push(lo);
        }
    }
}

// =================================================================================================
// C10

pub fn c10(c: &mut Ctx) {
    let h = c.h;
    let concl = conclusive(h);
    for o in &h.ops {
        let a = match o.a {
            Some(a) => a,
            None => continue,
        };
        if matches!(o.res(), Some(Res::NoHandle) | Some(Res::Unsupported)) {
            continue;
        }
        let ar = &h.actors[a as usize];
        // non-timeout failures are immediate: reported no later than the instant the actor ended
        if o.tag.is_send() {
            if let Some((_, t, _, res, _)) = &o.ret {
                if matches!(res, Res::ErrSend | Res::ErrRecv) {
                    if let Some((_, jt, _)) = &ar.joined {
                        c.chk.hit("C10");
                        if *t > (*jt).max(o.inv_t) {
                            c.v("C10", "failure-reported-late", o.ret.as_ref().unwrap().0, format!("{:?} on actor {a} reported {res:?} at t={t}us although the actor had ended at t={jt}us (invoked t={}us)", o.tag, o.inv_t));
                        }
                    }
                }
                if let Res::ErrTimeout { retryable } = res {
                    if !retryable {
                        c.v("C10", "timeout-not-retryable", o.ret.as_ref().unwrap().0, "Error::Timeout reports is_retryable() == false".into());
                    }
                    if !matches!(o.tag, OpTag::TellT | OpTag::AskT) {
                        c.v("C10", "timeout-without-deadline", o.ret.as_ref().unwrap().0, format!("{:?} (no timeout given) returned Err(Timeout)", o.tag));
                    }
                }
                if let Res::ErrOther(m) = res {
                    if m.contains("claims retryable") {
                        c.v("C10", "non-timeout-retryable", o.ret.as_ref().unwrap().0, m.clone());
                    }
                }
            }
        }
        let us = match (o.tag, o.us) {
            (OpTag::TellT | OpTag::AskT, Some(us)) => us,
            _ => continue,
        };
        if us == FOREVER {
            if let Some(Res::ErrTimeout { .. }) = o.res() {
                c.v("C10", "timeout-early", o.ret.as_ref().unwrap().0, "operation with Duration::MAX timed out".into());
            }
            continue;
        }
        let deadline = o.inv_t.saturating_add(us);
        let tol = 1000; // tokio's timer granularity (1 ms), late side only
        match &o.ret {
            Some((seq, t, _, res, _)) => {
                c.chk.hit("C10");
                match res {
                    Res::ErrTimeout { .. } => {
                        if *t < deadline {
                            c.v("C10", "timeout-early", *seq, format!("{:?} timed out at t={t}us, before its deadline {deadline}us", o.tag));
                        }
                        if *t > deadline + tol {
                            c.v("C10", "timeout-late", *seq, format!("{:?} timed out at t={t}us, after its deadline {deadline}us", o.tag));
                        }
                        // iff: the operation had not completed before the deadline. For a tell that was the
                        // sole waiter: a slot freed (a message was taken) strictly before the deadline
                        // (only when the send registered as a waiter in its first poll, i.e. the cooperative
                        // budget was available at the invocation - with an exhausted budget the acquire returns
                        // Pending *without* queueing, and a later sender may legitimately get the freed slot)
                        if o.tag == OpTag::TellT && o.budget {
                            for (hs, ht, _) in ar.hooks.iter().filter(|(s, _, e)| *s > o.inv_seq && *s < *seq && matches!(e, HookEv::HEnter(_))) {
                                if *ht + tol >= deadline {
                                    continue;
                                }
                                let others_waiting = h.ops.iter().any(|p| {
                                    p.a == Some(a)
                                        && !std::ptr::eq(p, o)
                                        && (p.tag.is_send() || p.tag == OpTag::Stop)
                                        && p.inv_seq < *hs
                                        && p.end_seq().map(|e| e > *hs).unwrap_or(true)
                                        && !p.mid.and_then(|m| h.msgs.get(&m)).map(|m| m.henter.first().map(|x| x.0 <= *hs).unwrap_or(false)).unwrap_or(false)
                                });
                                if !others_waiting {
                                    c.chk.hit("C10");
                                    c.v("C10", "timeout-masks-success", *seq, format!("tell_with_timeout returned Err(Timeout) although it was the only waiting sender when a mailbox slot was freed at t={ht}us, before the deadline {deadline}us"));
                                    break;
                                }
                            }
                        }
                        if o.tag == OpTag::AskT {
                            if let Some(m) = h.msgs.get(&o.mid.unwrap()) {
                                if let Some((_, ht, _, Out::Ok)) = m.hexit.first() {
                                    if *ht + tol < deadline {
                                        c.v("C10", "timeout-masks-success", *seq, format!("ask_with_timeout returned Err(Timeout) although the reply was produced at t={ht}us, before the deadline {deadline}us"));
                                    }
                                }
                            }
                        }
                    }
                    r if r.is_ok() => {
                        if *t > deadline + tol {
                            c.v("C10", "ok-after-deadline", *seq, format!("{:?} returned Ok at t={t}us, after its deadline {deadline}us", o.tag));
                        }
                    }
                    _ => {}
                }
            }
            None => {
                if concl && o.cancelled.is_none() {
                    c.chk.hit("C10");
                    c.v("C10", "timeout-never-fired", o.inv_seq, format!("{:?} with a {us} us timeout is still pending at quiescence", o.tag));
                }
            }
        }
    }
}

// =================================================================================================
// C11

pub fn c11(c: &mut Ctx) {
    let h = c.h;
    let concl = conclusive(h);
    for e in h.ev {
        if let EvKind::ErrTrace { msg } = &e.k {
            if msg.starts_with("DUPLICATE-ID") {
                c.v("C11", "duplicate-id", e.seq, msg.clone());
            }
        }
    }
    for o in &h.ops {
        let a = match o.a {
            Some(a) => a,
            None => continue,
        };
        let ar = &h.actors[a as usize];
        match (o.tag, o.res()) {
            (OpTag::Identity, Some(Res::Ident { a: ia, name, .. })) => {
                c.chk.hit("C11");
                if *ia != Some(a) || !name.ends_with("SimActor") {
                    c.v("C11", "identity-mismatch", o.inv_seq, format!("a handle derived from actor {a} (via {}) reports identity {ia:?} / {name}", o.via));
                }
            }
            (OpTag::IsAlive, Some(Res::Bool(b))) => {
                let strong_handle = matches!(o.via.as_str(), "ref" | "tellh" | "askh" | "ctl");
                if !strong_handle {
                    continue;
                }
                let s = o.inv_seq;
                let began_to_end = ar.stop_enter().map(|x| x.0 < s).unwrap_or(false)
                    || ar.first_panic_seq().map(|x| x < s).unwrap_or(false)
                    || ar.start_exit().map(|(x, o)| x < s && *o != Out::Ok).unwrap_or(false)
                    || ar.run_err().map(|x| x.0 < s).unwrap_or(false)
                    || ar.joined.as_ref().map(|j| j.0 < s).unwrap_or(false);
                // an actor whose on_start is running right now may fail in this very poll: the sample
                // is taken from another task, so "before s" is exact
                if !began_to_end {
                    c.chk.hit("C11");
                    if !*b {
                        c.v("C11", "is_alive-false-on-live-actor", s, format!("is_alive() returned false for actor {a} which had not begun to end"));
                    }
                }
                if ar.joined.as_ref().map(|j| j.0 < s).unwrap_or(false) {
                    c.chk.hit("C11");
                    if *b {
                        c.v("C11", "is_alive-true-after-end", s, format!("is_alive() returned true for actor {a} after its JoinHandle had resolved"));
                    }
                }
            }
            _ => {}
        }
    }
    // is_alive() through strong handles never goes back from false to true (closed channels do not reopen)
    for a in 0..h.actors.len() as u32 {
        let mut dead_at: Option<u64> = None;
        let mut samples: Vec<(u64, bool)> = h
            .ops
            .iter()
            .filter(|o| o.a == Some(a) && o.tag == OpTag::IsAlive && matches!(o.via.as_str(), "ref" | "tellh" | "askh" | "ctl"))
            .filter_map(|o| match o.res() {
                Some(Res::Bool(b)) => Some((o.inv_seq, *b)),
                _ => None,
            })
            .collect();
        samples.sort();
        for (s, b) in samples {
            match (dead_at, b) {
                (None, false) => dead_at = Some(s),
                (Some(d), true) => {
                    c.v("C11", "alive-again", s, format!("is_alive() of actor {a} returned true at seq {s} after it had returned false at seq {d}"));
                    break;
                }
                _ => {}
            }
        }
    }
    // upgrade
    for e in h.ev {
        if let EvKind::Handle { op: crate::world::HKind::Upgrade, h: slot, a: Some(a), ok, .. } = &e.k {
            let before = h.slots_at(e.seq - 1);
            if before.get(slot).map(|s| s.strong).unwrap_or(true) {
                continue; // not a weak handle: harness-level no-op
            }
            let ar = &h.actors[*a as usize];
            let strong_exists = before.values().any(|s| s.actor == *a && s.strong);
            let op_in_flight = h.ops.iter().any(|o| o.a == Some(*a) && o.inv_seq < e.seq && o.end_seq().map(|x| x > e.seq).unwrap_or(true) && (o.tag.is_send() || o.tag == OpTag::Stop));
            if strong_exists {
                c.chk.hit("C11");
                if !*ok {
                    c.v("C11", "upgrade-none-while-referenced", e.seq, format!("upgrade() of a weak handle to actor {a} returned None although a strong reference exists"));
                }
            } else if e.seq < ar.closing_seq() && h.ops.iter().any(|o| {
                // a message (or stop marker) that was accepted before the upgrade and has not been taken yet sits in
                // the mailbox, and a queued envelope / marker holds a strong reference: "or queued message" of C11
                o.a == Some(*a)
                    && o.ret_ok()
                    && o.ret.as_ref().map(|r| r.0 < e.seq).unwrap_or(false)
                    && ((o.tag.is_tell() && o.mid.and_then(|m| h.msgs.get(&m)).map(|m| m.henter.first().map(|x| x.0 > e.seq).unwrap_or(true)).unwrap_or(true)) || o.tag == OpTag::Stop)
            }) {
                c.chk.hit("C11");
                if !*ok {
                    c.v("C11", "upgrade-none-while-message-queued", e.seq, format!("upgrade() of a weak handle to actor {a} returned None although an accepted message or stop request is still queued and the actor has not begun to end"));
                }
            } else if !op_in_flight && !h.split && ar.joined.as_ref().map(|j| j.0 > e.seq).unwrap_or(true) && {
                // the actor has not ended yet, but nothing refers to it: no strong handle, no operation in flight, no
                // accepted message still queued, and it is not inside on_start or a handler (which hold a reference
                // themselves; on_run and on_stop only get a weak one). The mailbox is closed from that instant on,
                // whether or not the actor task has noticed yet: upgrade must already fail
                let started = ar.start_exit().map(|(x, _)| x < e.seq).unwrap_or(false);
                let in_ref_hook = ar
                    .hooks
                    .iter()
                    .filter(|(s, _, _)| *s < e.seq)
                    .last()
                    .map(|(_, _, ev)| matches!(ev, HookEv::StartEnter | HookEv::HEnter(_)))
                    .unwrap_or(true);
                let queued = h.ops.iter().any(|o| {
                    o.a == Some(*a) && o.inv_seq < e.seq && (o.tag.is_send() || o.tag == OpTag::Stop) && !matches!(o.res(), Some(Res::ErrSend) | Some(Res::NoHandle) | Some(Res::Unsupported))
                        && match o.mid.and_then(|m| h.msgs.get(&m)) {
                            Some(m) => m.hexit.first().map(|x| x.0 > e.seq).unwrap_or(true),
                            None => true,
                        }
                });
                started && !in_ref_hook && !queued
            } {
                c.chk.hit("C11");
                if *ok {
                    c.v("C11", "upgrade-some-while-unreferenced", e.seq, format!("upgrade() of a weak handle to actor {a} returned Some although no strong handle exists, nothing is queued or in flight and the actor is not inside on_start or a handler: something hidden holds a reference"));
                }
            } else if !op_in_flight && ar.joined.as_ref().map(|j| j.0 < e.seq).unwrap_or(false) {
                // a send whose push came after the actor had ended leaves its envelope - which holds a strong
                // reference - in the dead mailbox for ever: by the letter of the property a strong reference
                // still exists, so upgrade may return Some (the leak itself is noted in DESIGN.md 11.4c)
                let zombie = h.split && h.ops.iter().any(|o| o.a == Some(*a) && o.us.is_none() && (o.tag.is_send() || o.tag == OpTag::Stop) && o.inv_seq < e.seq && o.end_seq().map(|x| x > ar.closing_seq()).unwrap_or(true));
                if zombie {
                    continue;
                }
                c.chk.hit("C11");
                if *ok {
                    c.v("C11", "upgrade-some-after-death", e.seq, format!("upgrade() of a weak handle to actor {a} returned Some although the actor has ended and no strong reference exists"));
                }
            }
        }
    }
    let _ = concl;
}

// =================================================================================================
// C13

pub fn c13(c: &mut Ctx) {
    let h = c.h;
    let mut expected_total = 0u64;
    for o in &h.ops {
        if !(o.tag.is_send() || matches!(o.tag, OpTag::Stop | OpTag::Kill)) {
            continue;
        }
        if matches!(o.res(), Some(Res::NoHandle) | Some(Res::Unsupported)) {
            continue;
        }
        let want: Option<&str> = match o.res() {
            _ if !o.tag.is_send() => None, // stop()/kill() never record dead letters, whatever they return
            Some(Res::ErrSend) => Some("actor stopped"),
            Some(Res::ErrTimeout { .. }) => Some("timeout"),
            Some(Res::ErrRecv) => Some("reply dropped"),
            _ => None,
        };
        let n = o.dls.len();
        match want {
            None => {
                if o.ret.is_some() || o.cancelled.is_some() {
                    c.chk.hit("C13");
                }
                if n != 0 {
                    c.v("C13", "dead-letter-without-failure", h.ev[o.dls[0]].seq, format!("{:?} (result {:?}, cancelled {}) recorded {n} dead letter(s)", o.tag, o.res(), o.cancelled.is_some()));
                }
            }
            Some(reason) => {
                expected_total += 1;
                c.chk.hit("C13");
                if n != 1 {
                    c.v("C13", "dead-letter-count", o.ret.as_ref().unwrap().0, format!("{:?} failed with {:?} and recorded {n} dead letters (expected exactly 1)", o.tag, o.res().unwrap()));
                    continue;
                }
                let e = &h.ev[o.dls[0]];
                if let EvKind::DeadLetter { a, msg_type, reason: r, operation, .. } = &e.k {
                    let ret = o.ret.as_ref().unwrap();
                    if e.step != ret.2 {
                        c.v("C13", "dead-letter-wrong-moment", e.seq, format!("dead letter for {:?} recorded in poll {} but the operation returned in poll {}", o.tag, e.step, ret.2));
                    }
                    if *a != o.a {
                        c.v("C13", "dead-letter-wrong-actor", e.seq, format!("dead letter names actor {a:?}, the operation targeted {:?}", o.a));
                    }
                    if r != reason {
                        c.v("C13", "dead-letter-wrong-reason", e.seq, format!("{:?} returned {:?} but the dead letter says '{r}'", o.tag, o.res().unwrap()));
                    }
                    let kind = o.mid.and_then(|m| h.msg_spec.get(&m)).map(|m| &m.kind);
                    let want_type = match kind {
                        Some(MsgKind::Work) => "::Work",
                        Some(MsgKind::WorkR { .. }) => "::WorkR",
                        Some(MsgKind::Join { .. }) => "::JoinWork",
                        None => "",
                    };
                    if !msg_type.ends_with(want_type) {
                        c.v("C13", "dead-letter-wrong-type", e.seq, format!("dead letter names message type {msg_type}, expected ..::{want_type}"));
                    }
                    let fam_ok = if o.tag.is_tell() { operation.contains("tell") } else { operation.contains("ask") };
                    if !fam_ok {
                        c.v("C13", "dead-letter-wrong-operation", e.seq, format!("{:?} recorded a dead letter for operation '{operation}'", o.tag));
                    }
                }
            }
        }
    }
    for i in &h.unattributed_dls {
        c.v("C13", "dead-letter-outside-operation", h.ev[*i].seq, format!("a dead letter was recorded outside any operation's poll: {:?}", h.ev[*i].k));
    }
    // counter delta (test-utils builds)
    if h.dl_counts.len() >= 2 && conclusive(h) {
        let first = h.dl_counts.first().unwrap().1;
        let last = h.dl_counts.last().unwrap().1;
        c.chk.hit("C13");
        if last.wrapping_sub(first) != expected_total {
            c.v("C13", "counter-delta", h.dl_counts.last().unwrap().0, format!("dead_letter_count() grew by {} during the run, {expected_total} operations failed to deliver", last.wrapping_sub(first)));
        }
    }
}

pub fn run_all(h: &History) -> (Vec<Violation>, Checked) {
    let mut c = Ctx { h, out: Vec::new(), chk: Checked::default() };
    c01_c02(&mut c);
    c03(&mut c);
    c04_c05_c06(&mut c);
    c07(&mut c);
    c08(&mut c);
    c09(&mut c);
    queue_model(&mut c);
    c10(&mut c);
    c11(&mut c);
    c13(&mut c);
    c14_c15(&mut c);
    c20(&mut c);
    (c.out, c.chk)
}

#[allow(dead_code)]
pub fn unused(_: &dyn Fn(&Op) -> bool) {
    let _ = is_stall;
    let _ = is_panic;
}

// =================================================================================================
// C14 / C15 (feature deadlock-detection)

/// an ask issued from inside an actor's hook (the only asks deadlock detection tracks)
fn actor_asks<'x>(h: &'x History) -> Vec<&'x OpRec> {
    h.ops.iter().filter(|o| o.tag.is_ask() && o.who.actor_ctx().is_some() && o.a.is_some() && !matches!(o.res(), Some(Res::NoHandle) | Some(Res::Unsupported))).collect()
}

fn parse_cycle(msg: &str) -> Vec<u32> {
    let line = msg.lines().next().unwrap_or("");
    let mut out = Vec::new();
    let b = line.as_bytes();
    let mut i = 0;
    while i + 2 < b.len() {
        if b[i] == b'#' && b[i + 1] == b'a' {
            let mut j = i + 2;
            while j < b.len() && b[j].is_ascii_digit() {
                j += 1;
            }
            if let Ok(n) = line[i + 2..j].parse() {
                out.push(n);
            }
            i = j;
        } else {
            i += 1;
        }
    }
    out
}

pub fn c14_c15(c: &mut Ctx) {
    let h = c.h;
    let asks = actor_asks(h);
    let reply_produced_before = |o: &OpRec, s: u64| o.mid.and_then(|m| h.msgs.get(&m)).map(|m| m.hexit.iter().any(|x| x.0 < s)).unwrap_or(false);
    let callee_dead_before = |o: &OpRec, s: u64| h.actors[o.a.unwrap() as usize].dead_seq() < s;
    let mut deadlock_panics: Vec<(u64, u32, Vec<u32>)> = Vec::new();
    for e in h.ev {
        let (msg, op) = match &e.k {
            EvKind::Panic { msg, op } if msg.contains("Deadlock detected") => (msg, op),
            _ => continue,
        };
        let s = e.seq;
        let x = match h.task_of_actor.get(&e.task) {
            Some(a) => *a,
            None => {
                c.v("C15", "non-actor-caller-tracked", s, format!("a deadlock panic was raised on a non-actor task: {msg}"));
                continue;
            }
        };
        deadlock_panics.push((s, x, parse_cycle(msg)));
        c.chk.hit("C15");
        // the ask that panicked
        let y = op.and_then(|(who, k)| h.op_index.get(&(who, k)).and_then(|v| v.iter().rev().find(|i| h.ops[**i].inv_seq < s).copied())).and_then(|i| h.ops[i].a);
        let y = match y {
            Some(y) => y,
            None => {
                c.v("C15", "no-edge", s, format!("deadlock panic on actor {x} outside any tracked ask: {msg}"));
                continue;
            }
        };
        if x == y {
            continue; // self-ask: the cycle is the ask itself
        }
        // search a chain y -> ... -> x
        let live: Vec<&&OpRec> = asks.iter().filter(|o| o.inv_seq < s && o.end_seq().map(|e| e > s).unwrap_or(true)).collect();
        let path = |edges: &Vec<&&OpRec>| -> Option<Vec<u64>> {
            // breadth-first search y -> ... -> x over the given asks (an actor inside a join! may have
            // several asks in flight)
            let mut frontier: Vec<(u32, Vec<u64>)> = vec![(y, Vec::new())];
            let mut seen: Vec<u32> = vec![y];
            while let Some((cur, used)) = frontier.pop() {
                for e in edges.iter().filter(|o| o.who.actor_ctx() == Some(cur)) {
                    let nxt = e.a.unwrap();
                    let mut u = used.clone();
                    u.push(e.inv_seq);
                    if nxt == x {
                        return Some(u);
                    }
                    if !seen.contains(&nxt) {
                        seen.push(nxt);
                        frontier.insert(0, (nxt, u));
                    }
                }
            }
            None
        };
        let truly: Vec<&&OpRec> = live.iter().copied().filter(|o| !reply_produced_before(o, s) && !callee_dead_before(o, s)).collect();
        if path(&truly).is_some() {
            continue; // justified
        }
        if let Some(used) = path(&live) {
            // a chain exists only through edges whose ask is no longer unanswered
            let bad = live.iter().find(|o| used.contains(&o.inv_seq) && (reply_produced_before(o, s) || callee_dead_before(o, s))).unwrap();
            let sig = if reply_produced_before(bad, s) { "stale:reply-produced" } else { "stale:callee-dead" };
            c.v("C15", sig, s, format!("actor {x} panicked with '{}' when asking actor {y}, but the chain back to it runs through the ask of actor {:?} to actor {:?} (message {:?}), which was already answered or destroyed at that moment", msg.lines().next().unwrap_or(""), bad.who.actor_ctx(), bad.a, bad.mid));
            continue;
        }
        // no chain among in-flight asks at all: look at asks that had already finished
        let finished: Vec<&&OpRec> = asks.iter().filter(|o| o.inv_seq < s && o.end_seq().map(|e| e < s).unwrap_or(false)).collect();
        let mut all: Vec<&&OpRec> = live.clone();
        all.extend(finished.iter().copied());
        // prefer the most recent ask of each actor
        all.sort_by_key(|o| std::cmp::Reverse(o.inv_seq));
        if let Some(used) = path(&all) {
            let bad = all.iter().find(|o| used.contains(&o.inv_seq) && o.end_seq().map(|e| e < s).unwrap_or(false));
            let sig = match bad.map(|b| (b.res(), b.cancelled)) {
                Some((Some(Res::ErrTimeout { .. }), _)) => "stale:timed-out",
                Some((_, Some(_))) => "stale:cancelled",
                Some((Some(_), _)) => "stale:returned",
                _ => "no-edge",
            };
            c.v("C15", sig, s, format!("actor {x} panicked with '{}' when asking actor {y}, but the only chain back to it uses an ask that had already finished", msg.lines().next().unwrap_or("")));
        } else {
            c.v("C15", "no-edge", s, format!("actor {x} panicked with '{}' when asking actor {y}, but no chain of asks leads from {y} back to {x}", msg.lines().next().unwrap_or("")));
        }
    }
    // ---- graph residue at quiescence
    if conclusive(h) {
        for (seq, edges) in &h.graphs {
            // only snapshots taken at phase ends are judged (the first one is the start of the run)
            if !h.phase_end.iter().any(|(p, _)| *p < *seq && seq - p <= 2) {
                if *seq <= 3 && !edges.is_empty() {
                    c.v("C15", "graph-not-empty-at-start", *seq, format!("wait-for graph not empty before the run started: {edges:?}"));
                }
                continue;
            }
            c.chk.hit("C15");
            let expect: Vec<(i64, i64)> = asks.iter().filter(|o| o.inv_seq < *seq && o.end_seq().map(|e| e > *seq).unwrap_or(true)).map(|o| (o.who.actor_ctx().unwrap() as i64, o.a.unwrap() as i64)).collect();
            for e in edges {
                if e.0 < 0 {
                    c.v("C15", "non-actor-caller-tracked", *seq, format!("wait-for graph contains a caller that is not an actor: {e:?}"));
                } else if !expect.contains(e) {
                    c.v("C15", "residue", *seq, format!("wait-for graph still holds edge {} -> {} at quiescence although no such ask is in flight (in flight: {expect:?})", e.0, e.1));
                }
            }
        }
    }
    if !cfg!(feature = "f_deadlock") || !conclusive(h) {
        return;
    }
    // ---- C14: no cycle of directly awaited asks may be left waiting
    let end = h.last_seq();
    // only asks awaited directly by the hook (sub-operations of a join! are outside the property's claim)
    let pending: Vec<&&OpRec> = asks.iter().filter(|o| o.pending() && o.k < 1000).collect();
    for start in &pending {
        let x = start.who.actor_ctx().unwrap();
        let mut cur = start.a.unwrap();
        let mut chain = vec![x, cur];
        for _ in 0..h.actors.len() {
            if cur == x {
                break;
            }
            match pending.iter().find(|o| o.who.actor_ctx() == Some(cur)) {
                Some(n) => {
                    cur = n.a.unwrap();
                    chain.push(cur);
                }
                None => break,
            }
        }
        c.chk.hit("C14");
        if cur == x {
            c.v("C14", "undetected-cycle", end, format!("actors are left waiting on each other forever at quiescence: ask cycle {chain:?} was not detected"));
            break;
        }
    }
    if let Some(Expect::Cycle(chain)) = &h.sc.expect {
        c.chk.hit("C14");
        // some participant must have panicked naming a rotation of the chain
        let named_ok = deadlock_panics.iter().any(|(_, x, path)| {
            if chain.len() == 1 {
                return path.len() == 2 && path[0] == chain[0] && path[1] == chain[0] && *x == chain[0];
            }
            if path.len() != chain.len() + 1 || path.first() != path.last() || path[0] != *x {
                return false;
            }
            let pos = match chain.iter().position(|a| *a == path[0]) {
                Some(p) => p,
                None => return false,
            };
            (0..chain.len()).all(|i| path[i] == chain[(pos + i) % chain.len()])
        });
        if deadlock_panics.is_empty() {
            c.v("C14", "cycle-not-reported", end, format!("the asks of actors {chain:?} close a cycle in every schedule, yet no deadlock panic was raised"));
        } else if !named_ok {
            c.v("C14", "cycle-misnamed", deadlock_panics[0].0, format!("deadlock panic names {:?}, expected a rotation of {chain:?} starting at the panicking actor", deadlock_panics[0].2));
        }
        for o in asks.iter().filter(|o| o.pending()) {
            c.v("C14", "participant-left-waiting", o.inv_seq, format!("ask of actor {:?} to actor {:?} is still pending at quiescence", o.who.actor_ctx(), o.a));
        }
    }
}

// =================================================================================================
// C20 (feature metrics)

pub fn c20(c: &mut Ctx) {
    let h = c.h;
    let concl = conclusive(h);
    for a in 0..h.actors.len() as u32 {
        let ar = &h.actors[a as usize];
        let samples: Vec<(&OpRec, u64, u64, u64, u64, u64, u64)> = h
            .ops
            .iter()
            .filter(|o| o.tag == OpTag::Metrics && o.a == Some(a))
            .filter_map(|o| match o.res() {
                Some(Res::Metrics { count, avg_ns, max_ns, snap_count, snap_avg_ns, snap_max_ns }) => Some((o, *count, *avg_ns, *max_ns, *snap_count, *snap_avg_ns, *snap_max_ns)),
                _ => None,
            })
            .collect();
        if samples.is_empty() {
            continue;
        }
        let enters: Vec<u64> = ar.hooks.iter().filter(|(_, _, e)| matches!(e, HookEv::HEnter(_))).map(|x| x.0).collect();
        let exits: Vec<u64> = ar.hooks.iter().filter(|(_, _, e)| matches!(e, HookEv::HExit(_, out) if *out != Out::Dropped)).map(|x| x.0).collect();
        let mut prev: Option<u64> = None;
        // the longest handler body that demonstrably ran to completion, from the script (Burn = real spin)
        let burn_done = |s: u64| -> u64 {
            let mut best = 0u64;
            for (seq, _, e) in &ar.hooks {
                if *seq >= s {
                    break;
                }
                if let HookEv::HExit(mid, Out::Ok) = e {
                    if let Some(m) = h.msg_spec.get(mid) {
                        let us: u64 = m.steps.iter().map(|o| if let Op::Burn(us) = o { *us } else { 0 }).sum();
                        best = best.max(us * 1000);
                    }
                }
            }
            best
        };
        for (o, count, avg, max, sc, sa, sm) in &samples {
            let s = o.inv_seq;
            c.chk.hit("C20");
            if let Some(p) = prev {
                if *count < p {
                    c.v("C20", "count-decreased", s, format!("actor {a}: message_count went from {p} to {count}"));
                }
            }
            prev = Some(*count);
            let lo = exits.iter().filter(|x| **x < s).count() as u64;
            let hi = enters.iter().filter(|x| **x < s).count() as u64;
            if *count < lo || *count > hi {
                c.v("C20", "count-out-of-bounds", s, format!("actor {a}: message_count = {count}, but {lo} handlers had completed and {hi} had been entered"));
            }
            if count != sc || max != sm || avg != sa {
                c.v("C20", "snapshot-disagrees", s, format!("actor {a}: accessors (count {count}, avg {avg}, max {max}) vs snapshot (count {sc}, avg {sa}, max {sm}) read in the same poll"));
            }
            let in_handler = matches!(ar.hook_open_at(s), Some(HookEv::HEnter(_)));
            if !in_handler {
                if *avg > *max {
                    c.v("C20", "avg-exceeds-max", s, format!("actor {a}: avg_processing_time {avg}ns > max_processing_time {max}ns while no handler is running"));
                }
                if *count != hi {
                    c.v("C20", "count-not-entered", s, format!("actor {a}: no handler is running, {hi} user messages had their handler entered, message_count = {count}"));
                }
                let need = burn_done(s);
                if *max < need {
                    c.v("C20", "max-too-small", s, format!("actor {a}: max_processing_time {max}ns although a handler demonstrably spun for {need}ns"));
                }
            }
        }
        // after the end: final values stay readable and stable
        if let Some((js, _, _)) = &ar.joined {
            let after: Vec<_> = samples.iter().filter(|x| x.0.inv_seq > *js).collect();
            for w in after.windows(2) {
                c.chk.hit("C20");
                if w[0].1 != w[1].1 || w[0].3 != w[1].3 || w[0].2 != w[1].2 {
                    c.v("C20", "final-values-unstable", w[1].0.inv_seq, format!("actor {a}: metrics read after the actor ended differ between reads ({:?} vs {:?})", (w[0].1, w[0].2, w[0].3), (w[1].1, w[1].2, w[1].3)));
                }
            }
        }
        let _ = concl;
    }
    // a Metrics read that found no usable handle although the model says a strong one was in the slot
    for o in h.ops.iter().filter(|o| o.tag == OpTag::Metrics) {
        if let (Some(Res::Unsupported), true) = (o.res(), cfg!(feature = "f_metrics")) {
            if o.via == "ref" {
                c.v("C20", "metrics-unreadable", o.inv_seq, "metrics could not be read through a strong reference".into());
            }
        }
    }
}
