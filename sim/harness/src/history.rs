//! Indexed view of a run's history, shared by all monitors.
use crate::exec::RunResult;
use crate::model::*;
use crate::world::{Ev, EvKind, HKind, JoinRes, OpTag, Out, Res, RunOutEv, Who};
use std::collections::BTreeMap;

#[derive(Clone, Debug)]
pub struct OpRec {
    pub who: Who,
    pub k: u32,
    pub tag: OpTag,
    pub a: Option<u32>,
    pub mid: Option<u64>,
    /// timeout in microseconds (u64::MAX = Duration::MAX)
    pub us: Option<u64>,
    pub via: String,
    pub budget: bool,
    pub inv_seq: u64,
    pub inv_t: u64,
    pub inv_step: u64,
    pub ret: Option<(u64, u64, u64, Res, u32)>, // seq, t, step, res, polls
    pub cancelled: Option<(u64, u64)>,           // seq, t
    pub dls: Vec<usize>,                         // indices into events of attributed dead letters
}

impl OpRec {
    pub fn end_seq(&self) -> Option<u64> {
        self.ret.as_ref().map(|r| r.0).or(self.cancelled.map(|c| c.0))
    }
    pub fn res(&self) -> Option<&Res> {
        self.ret.as_ref().map(|r| &r.3)
    }
    pub fn pending(&self) -> bool {
        self.ret.is_none() && self.cancelled.is_none()
    }
    pub fn ret_ok(&self) -> bool {
        self.res().map(|r| r.is_ok()).unwrap_or(false)
    }
    pub fn self_send(&self) -> bool {
        self.who.actor_ctx().is_some() && self.who.actor_ctx() == self.a
    }
}

#[derive(Clone, Debug, Default)]
pub struct MsgRec {
    pub op: Option<usize>,
    pub henter: Vec<(u64, u64, u32)>,          // seq, t, actor
    pub hexit: Vec<(u64, u64, u64, Out)>,      // seq, t, nonce, out
    pub tell_results: Vec<u64>,
    pub job_end: Option<u64>,
}

/// hook-level event of one actor, in order
#[derive(Clone, Debug, PartialEq)]
pub enum HookEv {
    StartEnter,
    StartExit(Out),
    HEnter(u64),
    HExit(u64, Out),
    RunEnter(u32),
    RunStep(u32, u32),
    RunExit(u32, RunOutEv),
    StopEnter(bool),
    StopExit(Out),
}

#[derive(Clone, Debug, Default)]
pub struct ActorRec {
    pub spawned: bool,
    pub spawn_panic: Option<String>,
    pub cap: Option<usize>,
    pub hooks: Vec<(u64, u64, HookEv)>, // seq, t, ev
    pub joined: Option<(u64, u64, JoinRes)>,
    pub panics: Vec<(u64, String)>,
    pub task: Option<i64>,
}

impl ActorRec {
    pub fn start_exit(&self) -> Option<(u64, &Out)> {
        self.hooks.iter().find_map(|(s, _, e)| if let HookEv::StartExit(o) = e { Some((*s, o)) } else { None })
    }
    pub fn started_ok(&self) -> bool {
        matches!(self.start_exit(), Some((_, Out::Ok)))
    }
    pub fn stop_enter(&self) -> Option<(u64, u64, bool)> {
        self.hooks.iter().find_map(|(s, t, e)| if let HookEv::StopEnter(k) = e { Some((*s, *t, *k)) } else { None })
    }
    pub fn stop_exit(&self) -> Option<(u64, &Out)> {
        self.hooks.iter().find_map(|(s, _, e)| if let HookEv::StopExit(o) = e { Some((*s, o)) } else { None })
    }
    pub fn run_err(&self) -> Option<(u64, i64)> {
        self.hooks.iter().find_map(|(s, _, e)| if let HookEv::RunExit(_, RunOutEv::Err(c)) = e { Some((*s, *c)) } else { None })
    }
    pub fn panicked(&self) -> bool {
        !self.panics.is_empty()
            || self.hooks.iter().any(|(_, _, e)| matches!(e, HookEv::StartExit(Out::Panic) | HookEv::HExit(_, Out::Panic) | HookEv::RunExit(_, RunOutEv::Panic) | HookEv::StopExit(Out::Panic)))
    }
    pub fn first_panic_seq(&self) -> Option<u64> {
        let a = self.panics.first().map(|p| p.0);
        let b = self.hooks.iter().find_map(|(s, _, e)| {
            if matches!(e, HookEv::StartExit(Out::Panic) | HookEv::HExit(_, Out::Panic) | HookEv::RunExit(_, RunOutEv::Panic) | HookEv::StopExit(Out::Panic)) {
                Some(*s)
            } else {
                None
            }
        });
        match (a, b) {
            (Some(x), Some(y)) => Some(x.min(y)),
            (x, y) => x.or(y),
        }
    }
    /// first moment at which the actor demonstrably began to end (its channels may be closed from
    /// this poll on): on_stop entered, a hook panicked or on_start failed, or the JoinHandle resolved
    pub fn closing_seq(&self) -> u64 {
        let mut s = u64::MAX;
        if let Some(x) = self.stop_enter() {
            s = s.min(x.0);
        }
        if let Some(x) = self.first_panic_seq() {
            s = s.min(x);
        }
        if let Some((x, o)) = self.start_exit() {
            if *o != Out::Ok {
                s = s.min(x);
            }
        }
        if let Some(j) = &self.joined {
            s = s.min(j.0);
        }
        s
    }
    /// first moment at which the actor's task had demonstrably finished (queued requests destroyed)
    pub fn dead_seq(&self) -> u64 {
        let mut s = u64::MAX;
        if let Some(x) = self.first_panic_seq() {
            s = s.min(x);
        }
        if let Some((x, o)) = self.start_exit() {
            if *o != Out::Ok {
                s = s.min(x);
            }
        }
        if let Some((x, _)) = self.stop_exit() {
            s = s.min(x);
        }
        if let Some(j) = &self.joined {
            s = s.min(j.0);
        }
        s
    }
    pub fn ended(&self) -> bool {
        self.joined.is_some()
    }
    /// at the end of the history: is the actor inside a hook that has not returned?
    pub fn in_hook_at_end(&self) -> bool {
        match self.hooks.last() {
            None => false,
            Some((_, _, e)) => matches!(e, HookEv::StartEnter | HookEv::HEnter(_) | HookEv::RunEnter(_) | HookEv::RunStep(_, _) | HookEv::StopEnter(_)),
        }
    }
    /// was the actor inside a hook (other than a suspended on_run) at `seq`?
    pub fn hook_open_at(&self, seq: u64) -> Option<&HookEv> {
        let mut open: Option<&HookEv> = None;
        for (s, _, e) in &self.hooks {
            if *s > seq {
                break;
            }
            match e {
                HookEv::StartEnter | HookEv::HEnter(_) | HookEv::StopEnter(_) | HookEv::RunEnter(_) => open = Some(e),
                HookEv::RunStep(_, _) => {}
                _ => open = None,
            }
        }
        open
    }
}

#[derive(Clone, Debug, PartialEq)]
pub struct SlotModel {
    pub actor: u32,
    pub strong: bool,
}

pub struct History<'a> {
    /// at least one un-timed send of this run yielded between its slot reservation and its push (the window that
    /// is only open on real threads): an un-timed send may then take one poll more, and its message may
    /// enter the queue later than its slot was reserved
    pub split: bool,
    pub ev: &'a [Ev],
    pub sc: &'a Scenario,
    pub ops: Vec<OpRec>,
    pub op_index: BTreeMap<(Who, u32), Vec<usize>>,
    pub msgs: BTreeMap<u64, MsgRec>,
    pub msg_spec: BTreeMap<u64, &'a Msg>,
    pub actors: Vec<ActorRec>,
    /// seq of the end of each phase
    pub phase_end: Vec<(u64, String)>,
    pub task_of_actor: BTreeMap<i64, u32>,
    pub inconclusive: bool,
    pub default_cap: usize,
    /// panics on non-actor tasks: (seq, task, msg, op in flight)
    pub other_panics: Vec<(u64, i64, String)>,
    pub unattributed_dls: Vec<usize>,
    pub dl_counts: Vec<(u64, u64)>,
    pub graphs: Vec<(u64, Vec<(i64, i64)>)>,
}

fn collect_msgs<'a>(ops: &'a [Op], out: &mut BTreeMap<u64, &'a Msg>) {
    for o in ops {
        match o {
            Op::Tell { m, .. } | Op::TellT { m, .. } | Op::Ask { m, .. } | Op::AskT { m, .. } | Op::AskJoin { m, .. } | Op::TellUs { m, .. } | Op::AskUs { m, .. } | Op::TellSelf { m, .. } => {
                out.insert(m.id, m);
                collect_msgs(&m.steps, out);
            }
            Op::Cancel { op, .. } | Op::Unpolled(op) | Op::Deferred { op, .. } => collect_msgs(std::slice::from_ref(op), out),
            Op::Fork { ops, .. } => collect_msgs(ops, out),
            Op::Join(ops) | Op::Race(ops) => collect_msgs(ops, out),
            _ => {}
        }
    }
}

pub fn ops_contain(ops: &[Op], pred: &dyn Fn(&Op) -> bool) -> bool {
    ops.iter().any(|o| {
        pred(o)
            || match o {
                Op::Cancel { op, .. } | Op::Unpolled(op) | Op::Deferred { op, .. } => ops_contain(std::slice::from_ref(op), pred),
                Op::Fork { ops, .. } => ops_contain(ops, pred),
                Op::Join(ops) | Op::Race(ops) => ops_contain(ops, pred),
                _ => false,
            }
    })
}

impl<'a> History<'a> {
    pub fn build(sc: &'a Scenario, r: &'a RunResult, default_cap: usize) -> History<'a> {
        let ev = &r.log[..];
        let mut h = History {
            split: r.rep.sends_split > 0,
            ev,
            sc,
            ops: Vec::new(),
            op_index: BTreeMap::new(),
            msgs: BTreeMap::new(),
            msg_spec: BTreeMap::new(),
            actors: vec![ActorRec::default(); sc.actors.len()],
            phase_end: Vec::new(),
            task_of_actor: BTreeMap::new(),
            inconclusive: r.inconclusive(),
            default_cap,
            other_panics: Vec::new(),
            unattributed_dls: Vec::new(),
            dl_counts: Vec::new(),
            graphs: Vec::new(),
        };
        for a in &sc.actors {
            collect_msgs(&a.on_start, &mut h.msg_spec);
            collect_msgs(&a.on_stop, &mut h.msg_spec);
            for rs in &a.on_run {
                collect_msgs(&rs.steps, &mut h.msg_spec);
            }
        }
        for c in sc.clients.iter().chain(sc.probes.iter()) {
            collect_msgs(c, &mut h.msg_spec);
        }
        // actor task ids: the task that logged StartEnter
        for e in ev {
            if let EvKind::StartEnter { a } = &e.k {
                h.task_of_actor.insert(e.task, *a);
                if let Some(ar) = h.actors.get_mut(*a as usize) {
                    ar.task = Some(e.task);
                }
            }
        }
        for (i, e) in ev.iter().enumerate() {
            let push_hook = |h: &mut History<'a>, a: u32, he: HookEv| {
                if let Some(ar) = h.actors.get_mut(a as usize) {
                    ar.hooks.push((e.seq, e.t, he));
                }
            };
            match &e.k {
                EvKind::Spawned { a, cap, .. } => {
                    if let Some(ar) = h.actors.get_mut(*a as usize) {
                        ar.spawned = true;
                        ar.cap = *cap;
                    }
                }
                EvKind::SpawnPanic { a, msg } => {
                    if let Some(ar) = h.actors.get_mut(*a as usize) {
                        ar.spawn_panic = Some(msg.clone());
                    }
                }
                EvKind::Inv { who, k, op, a, mid, us, via, budget } => {
                    let idx = h.ops.len();
                    h.ops.push(OpRec {
                        who: *who,
                        k: *k,
                        tag: *op,
                        a: *a,
                        mid: *mid,
                        us: *us,
                        via: via.clone(),
                        budget: *budget,
                        inv_seq: e.seq,
                        inv_t: e.t,
                        inv_step: e.step,
                        ret: None,
                        cancelled: None,
                        dls: Vec::new(),
                    });
                    h.op_index.entry((*who, *k)).or_default().push(idx);
                    if let Some(m) = mid {
                        if op.is_send() {
                            h.msgs.entry(*m).or_default().op = Some(idx);
                        }
                    }
                }
                EvKind::Ret { who, k, res, polls } => {
                    if let Some(idx) = h.op_index.get(&(*who, *k)).and_then(|v| v.iter().rev().find(|i| h.ops[**i].pending()).copied()) {
                        h.ops[idx].ret = Some((e.seq, e.t, e.step, res.clone(), *polls));
                    }
                }
                EvKind::Cancelled { who, k, .. } => {
                    if let Some(idx) = h.op_index.get(&(*who, *k)).and_then(|v| v.iter().rev().find(|i| h.ops[**i].pending()).copied()) {
                        h.ops[idx].cancelled = Some((e.seq, e.t));
                    }
                }
                EvKind::StartEnter { a } => push_hook(&mut h, *a, HookEv::StartEnter),
                EvKind::StartExit { a, out } => push_hook(&mut h, *a, HookEv::StartExit(out.clone())),
                EvKind::HEnter { a, mid } => {
                    push_hook(&mut h, *a, HookEv::HEnter(*mid));
                    h.msgs.entry(*mid).or_default().henter.push((e.seq, e.t, *a));
                }
                EvKind::HExit { a, mid, nonce, out } => {
                    push_hook(&mut h, *a, HookEv::HExit(*mid, out.clone()));
                    h.msgs.entry(*mid).or_default().hexit.push((e.seq, e.t, *nonce, out.clone()));
                }
                EvKind::TellResult { mid, .. } => h.msgs.entry(*mid).or_default().tell_results.push(e.seq),
                EvKind::RunEnter { a, n } => push_hook(&mut h, *a, HookEv::RunEnter(*n)),
                EvKind::RunStep { a, n, i } => push_hook(&mut h, *a, HookEv::RunStep(*n, *i)),
                EvKind::RunExit { a, n, out } => push_hook(&mut h, *a, HookEv::RunExit(*n, out.clone())),
                EvKind::StopEnter { a, killed } => push_hook(&mut h, *a, HookEv::StopEnter(*killed)),
                EvKind::StopExit { a, out } => push_hook(&mut h, *a, HookEv::StopExit(out.clone())),
                EvKind::Joined { a, res } => {
                    if let Some(ar) = h.actors.get_mut(*a as usize) {
                        ar.joined = Some((e.seq, e.t, res.clone()));
                    }
                }
                EvKind::Panic { msg, .. } => match h.task_of_actor.get(&e.task) {
                    Some(a) => h.actors[*a as usize].panics.push((e.seq, msg.clone())),
                    None => h.other_panics.push((e.seq, e.task, msg.clone())),
                },
                EvKind::DeadLetter { op, .. } => match op {
                    Some((who, k)) => {
                        if let Some(idx) = h.op_index.get(&(*who, *k)).and_then(|v| v.last().copied()) {
                            h.ops[idx].dls.push(i);
                        } else {
                            h.unattributed_dls.push(i);
                        }
                    }
                    None => h.unattributed_dls.push(i),
                },
                EvKind::JobEnd { mid } => h.msgs.entry(*mid).or_default().job_end = Some(e.seq),
                EvKind::Phase { kind, .. } => h.phase_end.push((e.seq, kind.clone())),
                EvKind::DlCount { n } => h.dl_counts.push((e.seq, *n)),
                EvKind::Graph { edges } => h.graphs.push((e.seq, edges.clone())),
                _ => {}
            }
        }
        h
    }

    pub fn cap_of(&self, a: u32) -> usize {
        self.sc.actors[a as usize].cap.unwrap_or(self.default_cap)
    }

    /// first kill invocation on actor a: (inv_seq, ret_seq)
    pub fn kills(&self, a: u32) -> Vec<&OpRec> {
        self.ops.iter().filter(|o| o.tag == OpTag::Kill && o.a == Some(a) && !matches!(o.res(), Some(Res::NoHandle) | Some(Res::Unsupported))).collect()
    }
    pub fn stops(&self, a: u32) -> Vec<&OpRec> {
        self.ops.iter().filter(|o| o.tag == OpTag::Stop && o.a == Some(a) && !matches!(o.res(), Some(Res::NoHandle) | Some(Res::Unsupported))).collect()
    }

    /// messages (ids) sent to actor a, by op record
    pub fn sends_to(&self, a: u32) -> impl Iterator<Item = &OpRec> {
        self.ops.iter().filter(move |o| o.tag.is_send() && o.a == Some(a) && !matches!(o.res(), Some(Res::NoHandle) | Some(Res::Unsupported)))
    }

    /// Does the scenario script anything that can keep a hook of actor a from finishing, or crash it?
    /// (evaluated on the scenario and on which messages were sent to it)
    pub fn scripted_fault(&self, a: u32, pred: &dyn Fn(&Op) -> bool) -> bool {
        let spec = &self.sc.actors[a as usize];
        if ops_contain(&spec.on_start, pred) || ops_contain(&spec.on_stop, pred) || spec.on_run.iter().any(|r| ops_contain(&r.steps, pred)) {
            return true;
        }
        self.sends_to(a).any(|o| o.mid.and_then(|m| self.msg_spec.get(&m)).map(|m| ops_contain(&m.steps, pred)).unwrap_or(false))
    }

    /// Replay of the handle table up to (and including) `seq`: slot -> (actor, strong)
    pub fn slots_at(&self, seq: u64) -> BTreeMap<u32, SlotModel> {
        let mut t: BTreeMap<u32, SlotModel> = BTreeMap::new();
        for e in self.ev {
            if e.seq > seq {
                break;
            }
            match &e.k {
                EvKind::Spawned { a, peer, .. } => {
                    t.insert(*a, SlotModel { actor: *a, strong: true });
                    if *peer {
                        t.insert(50 + *a, SlotModel { actor: *a, strong: true });
                    }
                }
                EvKind::Handle { op, h, to, a, ok, strong, moved, .. } => {
                    if !*ok {
                        continue; // failed handle operations change nothing
                    }
                    if *op == HKind::Drop || *moved {
                        t.remove(h);
                    }
                    if let (Some(to), Some(a)) = (to, a) {
                        t.insert(*to, SlotModel { actor: *a, strong: *strong });
                    }
                }
                _ => {}
            }
        }
        t
    }

    /// look the scripted op up in the scenario
    pub fn find_op(&self, who: Who, k: u32) -> Option<&Op> {
        fn unwrap_cancel(o: &Op) -> &Op {
            match o {
                Op::Cancel { op, .. } | Op::Unpolled(op) | Op::Deferred { op, .. } => unwrap_cancel(op),
                x => x,
            }
        }
        fn find_fork<'x>(ops: &'x [Op], id: u32) -> Option<&'x [Op]> {
            for o in ops {
                match o {
                    Op::Fork { id: i, ops } if *i == id => return Some(ops),
                    Op::Fork { ops, .. } => {
                        if let Some(x) = find_fork(ops, id) {
                            return Some(x);
                        }
                    }
                    Op::Tell { m, .. } | Op::TellT { m, .. } | Op::Ask { m, .. } | Op::AskT { m, .. } | Op::AskJoin { m, .. } | Op::TellUs { m, .. } | Op::AskUs { m, .. } | Op::TellSelf { m, .. } => {
                        if let Some(x) = find_fork(&m.steps, id) {
                            return Some(x);
                        }
                    }
                    Op::Cancel { op, .. } | Op::Unpolled(op) | Op::Deferred { op, .. } => {
                        if let Some(x) = find_fork(std::slice::from_ref(op), id) {
                            return Some(x);
                        }
                    }
                    Op::Join(ops) | Op::Race(ops) => {
                        if let Some(x) = find_fork(ops, id) {
                            return Some(x);
                        }
                    }
                    _ => {}
                }
            }
            None
        }
        let script: Option<&[Op]> = match who {
            Who::Client(c) => self.sc.clients.get(c as usize).map(|v| &v[..]),
            Who::Probe(c) => self.sc.probes.get(c as usize).map(|v| &v[..]),
            Who::Start(a) => self.sc.actors.get(a as usize).map(|s| &s.on_start[..]),
            Who::Stop(a) => self.sc.actors.get(a as usize).map(|s| &s.on_stop[..]),
            Who::Run(a, n) => self.sc.actors.get(a as usize).and_then(|s| s.on_run.get(n as usize)).map(|r| &r.steps[..]),
            Who::Handler(_, mid) => self.msg_spec.get(&mid).map(|m| &m.steps[..]),
            Who::Fork(_, id) => {
                // fork ids are unique per scenario (generator invariant)
                let mut found = None;
                for c in self.sc.clients.iter().chain(self.sc.probes.iter()) {
                    if let Some(x) = find_fork(c, id) {
                        found = Some(x);
                        break;
                    }
                }
                if found.is_none() {
                    for a in &self.sc.actors {
                        for s in [&a.on_start[..], &a.on_stop[..]].into_iter().chain(a.on_run.iter().map(|r| &r.steps[..])) {
                            if let Some(x) = find_fork(s, id) {
                                found = Some(x);
                                break;
                            }
                        }
                    }
                }
                found
            }
        };
        if k >= 1000 {
            // sub-operation of a Join step
            let (outer, inner) = ((k / 1000 - 1) as usize, (k % 1000) as usize);
            return match script.and_then(|s| s.get(outer)).map(unwrap_cancel) {
                Some(Op::Join(subs)) | Some(Op::Race(subs)) => subs.get(inner).map(unwrap_cancel),
                _ => None,
            };
        }
        script.and_then(|s| s.get(k as usize)).map(unwrap_cancel)
    }

    /// scheduler decision (poll) during which the event with this seq was logged; seq numbers are
    /// contiguous from 1, so this is an index lookup
    pub fn step_of(&self, seq: u64) -> Option<u64> {
        let i = seq.checked_sub(1)? as usize;
        match self.ev.get(i) {
            Some(e) if e.seq == seq => Some(e.step),
            _ => self.ev.iter().find(|e| e.seq == seq).map(|e| e.step),
        }
    }

    pub fn last_seq(&self) -> u64 {
        self.ev.last().map(|e| e.seq).unwrap_or(0)
    }
}
