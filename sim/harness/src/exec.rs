//! One simulated run: (scenario, schedule configuration) -> history. A pure function of its
//! arguments and the code under test.
use crate::actor::{Init, SimActor};
use crate::model::*;
use crate::ops::{exec_script, SelfRef};
use crate::world::{self, log, Ev, EvKind, Handle, JoinRes, Who};
use rsactor::ActorResult;
use serde::{Deserialize, Serialize};
use std::sync::Arc;
use tokio::sim::{self, Quiescence, Strategy};

#[derive(Clone, Debug, Serialize, Deserialize, PartialEq, Eq)]
pub enum StrategyCfg {
    Uniform,
    Fifo,
    Sticky(u32),
    Pct { depth: u32, horizon: u32 },
    Starve(Vec<String>),
}

impl StrategyCfg {
    fn to_sim(&self) -> Strategy {
        match self {
            StrategyCfg::Uniform => Strategy::Uniform,
            StrategyCfg::Fifo => Strategy::Fifo,
            StrategyCfg::Sticky(p) => Strategy::Sticky(*p),
            StrategyCfg::Pct { depth, horizon } => Strategy::Pct { depth: *depth, horizon: *horizon },
            StrategyCfg::Starve(v) => Strategy::Starve(v.clone()),
        }
    }
    pub fn name(&self) -> &'static str {
        match self {
            StrategyCfg::Uniform => "uniform",
            StrategyCfg::Fifo => "fifo",
            StrategyCfg::Sticky(_) => "sticky",
            StrategyCfg::Pct { .. } => "pct",
            StrategyCfg::Starve(_) => "starve",
        }
    }
}

#[derive(Clone, Debug, Serialize, Deserialize, PartialEq, Eq)]
pub struct SchedCfg {
    pub seed: u64,
    pub strategy: StrategyCfg,
    pub spurious_permille: u32,
    pub max_steps: u64,
    #[serde(default, skip_serializing_if = "Option::is_none")]
    pub replay: Option<Vec<u32>>,
    /// per-mille probability that an un-timed mailbox send yields between slot reservation and push
    #[serde(default, skip_serializing_if = "is_zero")]
    pub split_permille: u32,
}

fn is_zero(x: &u32) -> bool {
    *x == 0
}

pub struct RunResult {
    pub log: Vec<Ev>,
    pub rep: sim::Report,
    pub phases: Vec<Quiescence>,
    pub probes: world::Probes,
    pub overflow: bool,
    /// names of gated tasks still alive when the last phase ended
    pub pending_tasks: Vec<String>,
    pub virtual_us: u64,
}

impl RunResult {
    pub fn inconclusive(&self) -> bool {
        self.overflow || self.phases.iter().any(|q| *q == Quiescence::StepLimit)
    }
}

fn panic_text(p: Box<dyn std::any::Any + Send>) -> String {
    let s = if let Some(s) = p.downcast_ref::<String>() {
        s.clone()
    } else if let Some(s) = p.downcast_ref::<&str>() {
        s.to_string()
    } else {
        "<non-string panic payload>".to_string()
    };
    world::normalise_ids(&s)
}

/// Compare every by-reference query method with the variant's own fields (C05).
fn accessors_agree(r: &ActorResult<SimActor>) -> Result<(), String> {
    let (completed, killed, phase, has_actor, code): (bool, bool, Option<rsactor::FailurePhase>, bool, Option<i64>) = match r {
        ActorResult::Completed { killed, .. } => (true, *killed, None, true, None),
        ActorResult::Failed { actor, error, phase, killed } => (false, *killed, Some(*phase), actor.is_some(), Some(error.0)),
    };
    use rsactor::FailurePhase as P;
    let checks: [(&str, bool, bool); 11] = [
        ("is_completed", r.is_completed(), completed),
        ("is_failed", r.is_failed(), !completed),
        ("was_killed", r.was_killed(), killed),
        ("stopped_normally", r.stopped_normally(), completed && !killed),
        ("is_startup_failed", r.is_startup_failed(), phase == Some(P::OnStart)),
        ("is_runtime_failed", r.is_runtime_failed(), matches!(phase, Some(P::OnRun) | Some(P::OnRunThenOnStop))),
        ("is_cleanup_failed", r.is_cleanup_failed(), phase == Some(P::OnRunThenOnStop)),
        ("is_stop_failed", r.is_stop_failed(), phase == Some(P::OnStop)),
        ("has_actor", r.has_actor(), has_actor),
        ("actor().is_some", r.actor().is_some(), has_actor),
        ("error().is_some", r.error().is_some(), !completed),
    ];
    for (name, got, want) in checks {
        if got != want {
            return Err(format!("{name}() = {got}, variant fields say {want}"));
        }
    }
    if r.error().map(|e| e.0) != code {
        return Err("error() does not return the variant's error".into());
    }
    Ok(())
}

/// Exhaustive table over the finite value space of ActorResult (variant x killed x phase x actor
/// present): a pure check, run once per process (labelled as such in the evidence).
pub fn accessor_table_check() -> Result<u32, String> {
    use rsactor::FailurePhase as P;
    let mk = || SimActor { a: 0, spec: Arc::new(ActorSpec::default()), journal: vec!["x".into()], runs: 0, handled: 0 };
    let mut n = 0;
    for killed in [false, true] {
        let r = ActorResult::Completed { actor: mk(), killed };
        accessors_agree(&r)?;
        consume_check(r, (n % 4) as u8)?;
        n += 1;
        for phase in [P::OnStart, P::OnRun, P::OnStop, P::OnRunThenOnStop] {
            for present in [false, true] {
                for conv in 0..4u8 {
                    let r = ActorResult::Failed { actor: if present { Some(mk()) } else { None }, error: crate::actor::SimError(77), phase, killed };
                    accessors_agree(&r)?;
                    consume_check(r, conv)?;
                    n += 1;
                }
            }
        }
        for conv in 0..4u8 {
            let r = ActorResult::Completed { actor: mk(), killed };
            consume_check(r, conv)?;
            n += 1;
        }
    }
    Ok(n)
}

/// The consuming conversions: into_actor / into_error / to_result / From<..> for tuple.
fn consume_check(r: ActorResult<SimActor>, conv: u8) -> Result<(Option<Vec<String>>, Option<i64>), String> {
    let has_actor = r.has_actor();
    let code = r.error().map(|e| e.0);
    let journal = r.actor().map(|a| a.journal.clone());
    let completed = r.is_completed();
    match conv {
        0 => {
            let a = r.into_actor();
            if a.is_some() != has_actor || a.as_ref().map(|a| a.journal.clone()) != journal {
                return Err("into_actor() disagrees with actor()".into());
            }
        }
        1 => {
            let e = r.into_error();
            if e.map(|e| e.0) != code {
                return Err("into_error() disagrees with error()".into());
            }
        }
        2 => match r.to_result() {
            Ok(a) => {
                if !completed || Some(a.journal) != journal {
                    return Err("to_result() Ok on a failed result / wrong actor".into());
                }
            }
            Err(e) => {
                if completed || Some(e.0) != code {
                    return Err("to_result() Err on a completed result / wrong error".into());
                }
            }
        },
        _ => {
            let (a, e): (Option<SimActor>, Option<crate::actor::SimError>) = r.into();
            if a.is_some() != has_actor || a.map(|a| a.journal) != journal || e.map(|e| e.0) != code {
                return Err("From<ActorResult> for (Option<T>, Option<E>) disagrees with accessors".into());
            }
        }
    }
    Ok((journal, code))
}

fn join_res(a: u32, r: Result<ActorResult<SimActor>, tokio::task::JoinError>) -> JoinRes {
    match r {
        Err(e) => {
            if e.is_panic() {
                JoinRes::Panic(panic_text(e.into_panic()))
            } else {
                JoinRes::Cancelled
            }
        }
        Ok(res) => {
            let mut acc_ok = true;
            if let Err(why) = accessors_agree(&res) {
                acc_ok = false;
                log(EvKind::ErrTrace { msg: format!("ACCESSOR-MISMATCH actor {a}: {why}") });
            }
            let (completed, killed, phase) = match &res {
                ActorResult::Completed { killed, .. } => (true, *killed, String::new()),
                ActorResult::Failed { phase, killed, .. } => (false, *killed, format!("{phase}")),
            };
            // ground truth straight from the variant's fields
            let (fj, fc) = match &res {
                ActorResult::Completed { actor, .. } => (Some(actor.journal.clone()), None),
                ActorResult::Failed { actor, error, .. } => (actor.as_ref().map(|x| x.journal.clone()), Some(error.0)),
            };
            let conv = (a as u8).wrapping_add(fj.as_ref().map(|j| j.len() as u8).unwrap_or(0)) % 4;
            match consume_check(res, conv) {
                Ok((j, c)) => {
                    if j != fj || c != fc {
                        acc_ok = false;
                        log(EvKind::ErrTrace { msg: format!("ACCESSOR-MISMATCH actor {a}: accessors disagree with fields") });
                    }
                }
                Err(why) => {
                    acc_ok = false;
                    log(EvKind::ErrTrace { msg: format!("ACCESSOR-MISMATCH actor {a}: {why}") });
                }
            }
            if completed {
                JoinRes::Completed { killed, journal: fj.unwrap_or_default(), acc_ok }
            } else {
                JoinRes::Failed { phase, code: fc.unwrap_or(0), killed, journal: fj, acc_ok }
            }
        }
    }
}

#[cfg(all(rsactor_verif, feature = "f_deadlock"))]
pub fn graph_snapshot() {
    let edges: Vec<(i64, i64)> = rsactor::__verif_wait_for_edges()
        .into_iter()
        .map(|(x, y)| {
            let f = |raw: u64| world::actor_of_raw(raw).map(|a| a as i64).unwrap_or(-(raw as i64) - 1000);
            (f(x), f(y))
        })
        .collect();
    let mut edges = edges;
    edges.sort();
    log(EvKind::Graph { edges });
}
#[cfg(not(all(rsactor_verif, feature = "f_deadlock")))]
pub fn graph_snapshot() {}

#[cfg(feature = "f_test_utils")]
pub fn dl_count_snapshot() {
    // relative to the run's first snapshot: the counter is process-wide and runs share a process
    let c = rsactor::dead_letter_count();
    let base = world::with(|w| *w.dl_base.get_or_insert(c));
    log(EvKind::DlCount { n: c.wrapping_sub(base) });
}
#[cfg(not(feature = "f_test_utils"))]
pub fn dl_count_snapshot() {}

/// Process-wide record of every actor id ever handed out (ids are small: a bitmap suffices).
fn note_id(raw: u64) -> bool {
    use std::sync::Mutex;
    static SEEN: Mutex<(Vec<u64>, Vec<u64>)> = Mutex::new((Vec::new(), Vec::new()));
    let mut g = SEEN.lock().unwrap();
    if raw < (1 << 32) {
        let (w, b) = ((raw / 64) as usize, raw % 64);
        if g.0.len() <= w {
            g.0.resize(w + 1, 0);
        }
        let fresh = g.0[w] & (1 << b) == 0;
        g.0[w] |= 1 << b;
        fresh
    } else if g.1.contains(&raw) {
        false
    } else {
        g.1.push(raw);
        true
    }
}

fn quiescence_name(q: Quiescence) -> &'static str {
    match q {
        Quiescence::AllDone => "all-done",
        Quiescence::Quiescent => "quiescent",
        Quiescence::StepLimit => "step-limit",
    }
}

pub fn execute(sc: &Scenario, cfg: &SchedCfg) -> RunResult {
    let rt = sim::runtime(cfg.seed);
    sim::install(sim::Config {
        seed: cfg.seed,
        strategy: cfg.strategy.to_sim(),
        spurious_permille: cfg.spurious_permille,
        max_steps: cfg.max_steps,
        replay: cfg.replay.clone(),
        // scenarios that carry a promise about *every* schedule (forced cycles) were constructed for atomic
        // polls: with the reserve | push window open other outcomes are legitimate (a participant blocking on
        // its own full mailbox before it ever asks, say), so the window stays shut for them
        split_send_permille: if sc.expect.is_some() { 0 } else { cfg.split_permille },
    });
    let dispatch = tracing::Dispatch::new(world::Capture);
    let guard = tracing::dispatcher::set_default(&dispatch);
    let nonce_seed = cfg.seed.wrapping_mul(0x2545_F491_4F6C_DD1D) ^ 0x1357_9BDF_0246_8ACE;
    let sc2 = sc.clone();
    let (phases, pending) = rt.block_on(async move {
        let sc = sc2;
        world::install(sc.erase, nonce_seed);
        dl_count_snapshot();
        graph_snapshot();
        // ---- actors
        for (a, spec) in sc.actors.iter().enumerate() {
            let a = a as u32;
            let spec = Arc::new(spec.clone());
            sim::name_next_spawn(format!("actor:{a}"));
            let init = Init { a, spec: spec.clone() };
            let spawned = std::panic::catch_unwind(std::panic::AssertUnwindSafe(|| match spec.cap {
                Some(c) => rsactor::spawn_with_mailbox_capacity::<SimActor>(init, c),
                None => rsactor::spawn::<SimActor>(init),
            }));
            match spawned {
                Err(p) => {
                    let msg = panic_text(p);
                    // a name set for a spawn that never happened must not leak to the next task
                    sim::name_next_spawn(format!("actor:{a}:unspawned"));
                    log(EvKind::SpawnPanic { a, msg });
                }
                Ok((r, jh)) => {
                    let raw = r.identity().id;
                    if !note_id(raw) {
                        log(EvKind::ErrTrace { msg: format!("DUPLICATE-ID actor {a} was given an id already used in this process") });
                    }
                    world::with(|w| {
                        w.raw_ids.insert(raw, a);
                        if sc.peer_slots {
                            w.slots.insert(50 + a, (Arc::new(Handle::Strong(r.clone())), a));
                        }
                        w.slots.insert(a, (Arc::new(Handle::Strong(r)), a));
                    });
                    log(EvKind::Spawned { a, raw: 0, cap: spec.cap, peer: sc.peer_slots });
                    sim::spawn_named(format!("join:{a}"), async move {
                        let r = jh.await;
                        let res = join_res(a, r);
                        log(EvKind::Joined { a, res });
                    });
                }
            }
        }
        // ---- clients
        for (c, ops) in sc.clients.iter().enumerate() {
            let ops = ops.clone();
            let c = c as u32;
            sim::spawn_named(format!("client:{c}"), async move {
                let _ = exec_script(Who::Client(c), &ops, SelfRef::None).await;
            });
        }
        let mut phases = Vec::new();
        let q = sim::run_until_quiescent().await;
        log(EvKind::Phase { n: 0, kind: quiescence_name(q).into() });
        graph_snapshot();
        dl_count_snapshot();
        phases.push(q);
        if !sc.probes.is_empty() && q != Quiescence::StepLimit {
            for (c, ops) in sc.probes.iter().enumerate() {
                let ops = ops.clone();
                let c = c as u32;
                sim::spawn_named(format!("probe:{c}"), async move {
                    let _ = exec_script(Who::Probe(c), &ops, SelfRef::None).await;
                });
            }
            let q = sim::run_until_quiescent().await;
            log(EvKind::Phase { n: 1, kind: quiescence_name(q).into() });
            graph_snapshot();
            dl_count_snapshot();
            phases.push(q);
        }
        let pending: Vec<String> = sim::live_tasks().into_iter().map(sim::task_name).collect();
        // stop logging: tearing the runtime down drops every stuck future, which is not behaviour
        world::with(|w| w.closing = true);
        (phases, pending)
    });
    // handles must die before the runtime so that their wakes land in a live simulation
    let mut w = world::uninstall();
    let slots = std::mem::take(&mut w.slots);
    drop(slots);
    let virtual_us = w.log.last().map(|e| e.t).unwrap_or(0);
    drop(rt);
    drop(guard);
    let rep = sim::uninstall();
    RunResult { log: w.log, rep, phases, probes: w.probes, overflow: w.overflow, pending_tasks: pending, virtual_us }
}
