//! Structured scenario families: situations that random mixing reaches too rarely, constructed on
//! purpose (cause x phase grids, aligned deadlines, full mailboxes, backlogs at the moment of a
//! kill). What is left open inside each cell - who wins a race, the order of same-instant events -
//! is the scheduler's.
use crate::gen::G;
use crate::model::*;

fn tell(h: u32, g: &mut G) -> Op {
    Op::Tell { h, m: Msg::work(g.mid()) }
}
fn tell_slow(h: u32, g: &mut G, ms: u64) -> Op {
    Op::Tell { h, m: Msg::with(g.mid(), vec![Op::Sleep(ms)]) }
}
fn ask(h: u32, g: &mut G) -> Op {
    Op::Ask { h, m: Msg::work(g.mid()) }
}
fn ask_slow(h: u32, g: &mut G, ms: u64) -> Op {
    Op::Ask { h, m: Msg::with(g.mid(), vec![Op::Sleep(ms)]) }
}
fn probes_for(g: &mut G, n_actors: usize, peer: bool) -> Vec<Vec<Op>> {
    let mut p = Vec::new();
    for a in 0..n_actors as u32 {
        p.push(Op::IsAlive { h: a });
        p.push(Op::Ask { h: a, m: Msg::work(g.mid()) });
        if peer {
            p.push(Op::Ask { h: 50 + a, m: Msg::work(g.mid()) });
        }
    }
    vec![p]
}

/// C04/C05: termination cause x arrival phase x second racing cause, enumerated by `index`.
pub fn lifecycle_grid(g: &mut G, index: u64) -> Scenario {
    let cell = index % 216;
    let cause = cell % 9;
    let phase = (cell / 9) % 6;
    let second = (cell / 54) % 4;
    let mut a = ActorSpec { cap: Some(g.pick(&[1usize, 2, 4, 32])), ..Default::default() };
    // hook shapes: on_start takes 5 ms, on_stop 10 ms, on_run sleeps in 50 ms slices
    a.on_start = vec![Op::Sleep(5)];
    a.on_stop = vec![Op::Sleep(10)];
    let runs = g.range(0, 3);
    for i in 0..runs {
        a.on_run.push(RunScript { steps: vec![Op::Sleep(50)], out: if i + 1 == runs && g.chance(500) { RunOut::False } else { RunOut::True } });
    }
    if phase == 3 && a.on_run.is_empty() {
        a.on_run.push(RunScript { steps: vec![Op::Sleep(50)], out: RunOut::True });
        a.on_run.push(RunScript { steps: vec![Op::Sleep(50)], out: RunOut::False });
    }
    let mut traffic: Vec<Op> = Vec::new();
    let mut actor_ops: Vec<Op> = Vec::new(); // the client that delivers the cause
    // when does the cause arrive?
    let t_act = match phase {
        0 => g.range(0, 4),  // during on_start
        1 => 300,            // idle (on_run scripts are over or asleep)
        2 => 8,              // during a handler that runs 6..16
        3 => g.range(10, 40), // during an on_run await
        4 => 8,              // during on_stop (a stop was accepted at 6)
        _ => 8,              // mailbox non-empty behind a busy handler
    };
    match phase {
        2 => traffic.extend([Op::Sleep(6), tell_slow(0, g, 10)]),
        4 => traffic.extend([Op::Sleep(6), Op::Stop { h: 0 }]),
        5 => {
            traffic.extend([Op::Sleep(6), tell_slow(0, g, 10)]);
            for _ in 0..g.range(1, 3) {
                traffic.push(if g.chance(300) { ask(0, g) } else { tell(0, g) });
            }
        }
        _ => {
            if g.chance(500) {
                traffic.push(tell(0, g));
            }
        }
    }
    actor_ops.push(Op::Sleep(t_act));
    let terminating = |g: &mut G, which: u64| -> Vec<Op> {
        match which {
            0 => vec![Op::Stop { h: 0 }],
            1 => vec![Op::Kill { h: 0 }],
            _ => vec![Op::Drop { h: 0 }, Op::Drop { h: 50 }, Op::Yield(g.range(0, 1) as u32)],
        }
    };
    match cause {
        0 => actor_ops.extend(terminating(g, 0)),
        1 => actor_ops.extend(terminating(g, 1)),
        2 => actor_ops.extend(terminating(g, 2)),
        3 => {
            // on_run error at the k-th invocation
            let k = g.below(3) as usize;
            while a.on_run.len() <= k {
                a.on_run.push(RunScript { steps: vec![Op::Sleep(5)], out: RunOut::True });
            }
            a.on_run[k].out = RunOut::Err(700 + k as i64);
            a.on_run.truncate(k + 1);
            if g.chance(400) {
                a.on_stop.push(Op::Fail(750));
            }
        }
        4 => {
            let m = Msg::with(g.mid(), vec![Op::Sleep(g.range(0, 2)), Op::Panic]);
            actor_ops.push(if g.chance(500) { Op::Tell { h: 0, m } } else { Op::Ask { h: 0, m } });
        }
        5 => a.on_start.push(Op::Fail(500)),
        6 => a.on_start.push(Op::Panic),
        7 => {
            a.on_stop.push(Op::Fail(600));
            let w = g.below(3);
            actor_ops.extend(terminating(g, w));
        }
        _ => {
            a.on_stop.push(Op::Panic);
            let w = g.below(3);
            actor_ops.extend(terminating(g, w));
        }
    }
    let mut clients = vec![traffic, actor_ops];
    if second > 0 {
        let mut c = vec![Op::Sleep(t_act)];
        c.extend(terminating(g, second - 1));
        clients.push(c);
    }
    // somebody finally lets go of every reference so that stop-less cells also end
    if g.chance(600) {
        clients.push(vec![Op::Sleep(2_000), Op::Drop { h: 0 }, Op::Drop { h: 50 }]);
    }
    let probes = probes_for(g, 1, true);
    Scenario { actors: vec![a], clients, probes, peer_slots: true, erase: None }
}

/// C06: a backlog of 0..capacity(+2) messages at the moment of the kill, in every actor phase.
pub fn kill_backlog(g: &mut G) -> Scenario {
    let cap = g.pick(&[1usize, 4, 32, 130]);
    let phase = g.below(4); // 0 on_start, 1 handler, 2 on_run await, 3 idle
    let mut a = ActorSpec { cap: Some(cap), ..Default::default() };
    if phase == 0 {
        a.on_start = vec![Op::Sleep(10)];
    }
    if phase == 2 {
        a.on_run = vec![RunScript { steps: vec![Op::Sleep(100)], out: RunOut::True }, RunScript { steps: vec![Op::Sleep(100)], out: RunOut::False }];
    }
    if g.chance(300) {
        a.on_stop = vec![Op::Sleep(3)];
    }
    let backlog = match g.below(4) {
        0 => 0,
        1 => g.range(1, 3).min(cap as u64 + 2),
        2 => cap as u64,
        _ => (cap as u64 + g.range(1, 2)).min(140),
    };
    let mut clients: Vec<Vec<Op>> = Vec::new();
    let mut filler = Vec::new();
    let t_kill = match phase {
        0 => 5,
        1 => 25,
        2 => 30,
        _ => 500,
    };
    if phase == 1 {
        filler.push(Op::Sleep(20));
        filler.push(tell_slow(0, g, 10));
    } else if phase == 3 {
        filler.push(Op::Sleep(400));
    }
    // the backlog itself: several senders when it exceeds the capacity (the excess blocks)
    let senders = if backlog > cap as u64 { 2 + g.below(2) } else { 1 };
    let mut per: Vec<Vec<Op>> = (0..senders).map(|_| Vec::new()).collect();
    for i in 0..backlog {
        let s = (i % senders) as usize;
        let op = if g.chance(250) { ask(0, g) } else if g.chance(100) { Op::AskT { h: 0, m: Msg::work(g.mid()), ms: g.pick(&[1u64, 50, 3_600_000]) } } else { tell(0, g) };
        per[s].push(op);
    }
    if phase == 1 || phase == 3 {
        // the backlog is queued right before the kill
        for p in per.iter_mut() {
            p.insert(0, Op::Sleep(t_kill - 2));
        }
    }
    // with a busy/starting actor the backlog stays queued; with an idle one it races the kill
    filler.extend(per.remove(0));
    clients.push(filler);
    clients.extend(per);
    let mut killer = vec![Op::Sleep(t_kill), Op::Kill { h: 0 }];
    for _ in 0..g.below(3) {
        killer.push(Op::Kill { h: 0 });
    }
    if g.chance(300) {
        killer.push(Op::Sleep(50));
        killer.push(Op::Kill { h: 0 }); // kill on a dead actor
        killer.push(tell(0, g));
    }
    clients.push(killer);
    match g.below(4) {
        0 => clients.push(vec![Op::Sleep(t_kill), Op::Stop { h: 0 }]),
        1 => clients.push(vec![Op::Sleep(t_kill), Op::Drop { h: 0 }]),
        _ => {}
    }
    Scenario { actors: vec![a], clients, probes: vec![], peer_slots: false, erase: None }
}

/// C03/C13: concurrent askers while the actor ends in one of seven ways.
pub fn askers_vs_ending(g: &mut G) -> Scenario {
    let cap = g.pick(&[1usize, 1, 2, 4, 32]);
    let mut a = ActorSpec { cap: Some(cap), ..Default::default() };
    let ending = g.below(8);
    let n_askers = g.range(2, 6);
    let mut clients: Vec<Vec<Op>> = Vec::new();
    // keep the actor busy so that asks are queued / blocked when the ending arrives
    let busy = g.chance(700);
    let mut first = Vec::new();
    if busy {
        first.push(ask_slow(0, g, 10));
    }
    clients.push(first);
    for _ in 0..n_askers {
        let mut c = vec![Op::Sleep(g.range(0, 3))];
        for _ in 0..g.range(1, 3) {
            c.push(match g.below(10) {
                0..=4 => ask(0, g),
                5 => Op::AskT { h: 0, m: Msg::work(g.mid()), ms: g.pick(&[1u64, 5, 50, 3_600_000]) },
                6 => ask_slow(0, g, 2),
                7 => Op::AskJoin { h: 0, m: Msg { id: g.mid(), kind: MsgKind::Join { delay_ms: g.below(3), out: g.pick(&[JobOut::Value, JobOut::Value, JobOut::Panic, JobOut::Abort]) }, steps: vec![] } },
                8 => tell(0, g),
                _ => Op::TellT { h: 0, m: Msg::work(g.mid()), ms: g.pick(&[1u64, 5, 50]) },
            });
        }
        // later asks, after the ending
        if g.chance(500) {
            c.push(Op::Sleep(100));
            c.push(ask(0, g));
        }
        clients.push(c);
    }
    let t_end = g.range(1, 8);
    let mut ender = vec![Op::Sleep(t_end)];
    match ending {
        0 => ender.push(Op::Stop { h: 0 }),
        1 => ender.push(Op::Kill { h: 0 }),
        2 => {
            // all references dropped: every client drops the shared slot (harmless when repeated)
            ender.push(Op::Drop { h: 0 });
        }
        3 => a.on_start = vec![Op::Sleep(3), Op::Fail(41)],
        4 => a.on_run = vec![RunScript { steps: vec![Op::Sleep(t_end)], out: RunOut::Err(42) }],
        5 => ender.push(Op::Tell { h: 0, m: Msg::with(g.mid(), vec![Op::Panic]) }),
        6 => a.on_start = vec![Op::Sleep(3), Op::Panic],
        _ => {
            a.on_stop = vec![Op::Panic];
            ender.push(Op::Stop { h: 0 });
        }
    }
    clients.push(ender);
    Scenario { actors: vec![a], clients, probes: vec![], peer_slots: false, erase: None }
}

/// C09: the actor is stalled (in a handler or in on_start); senders fill the mailbox; a probe phase
/// releases the stall and everything accepted must come out in order.
pub fn stalled_capacity(g: &mut G) -> Scenario {
    let cap = g.pick(&[Some(1usize), Some(2), Some(3), Some(4), Some(8), None]);
    let capn = cap.unwrap_or(32) as u64;
    let mut a = ActorSpec { cap, ..Default::default() };
    let stall_in_start = g.chance(300);
    let mut clients: Vec<Vec<Op>> = Vec::new();
    if stall_in_start {
        a.on_start = vec![Op::Wait(1)];
    } else {
        clients.push(vec![Op::Tell { h: 0, m: Msg::with(g.mid(), vec![Op::Wait(1)]) }]);
    }
    let extra = g.range(0, 3);
    let total = capn + extra;
    let senders = g.range(1, 4).min(total.max(1));
    let mut per: Vec<Vec<Op>> = (0..senders).map(|_| vec![Op::Sleep(5)]).collect();
    let stop_at = if g.chance(300) { Some(g.below(total)) } else { None };
    for i in 0..total {
        let s = (i % senders) as usize;
        if Some(i) == stop_at {
            per[s].push(Op::Stop { h: 0 });
        } else if g.chance(100) {
            per[s].push(Op::TellT { h: 0, m: Msg::work(g.mid()), ms: 3_600_000 });
        } else {
            per[s].push(tell(0, g));
        }
    }
    clients.extend(per);
    let probes = vec![vec![Op::Signal(1), Op::Sleep(1), Op::Ask { h: 0, m: Msg::work(g.mid()) }]];
    Scenario { actors: vec![a], clients, probes, peer_slots: false, erase: None }
}

/// C10: the natural completion time of the operation placed before / at / after / never relative to
/// the deadline, with the mailbox free, full or closed and the actor possibly dying first.
pub fn deadline_alignment(g: &mut G) -> Scenario {
    let t = g.pick(&[0u64, 1, 2, 5, 50]);
    let rel = g.below(5); // 0 before, 1 at, 2 after, 3 never, 4 actor dies first
    let dur = match rel {
        0 => t.saturating_sub(g.range(1, 2)),
        1 => t,
        2 => t + g.range(1, 3),
        _ => 0,
    };
    let mailbox = g.below(3); // 0 free, 1 full, 2 closed
    let cap = if mailbox == 1 { 1 } else { g.pick(&[1usize, 2, 32]) };
    let a = ActorSpec { cap: Some(cap), ..Default::default() };
    let mut clients: Vec<Vec<Op>> = Vec::new();
    let handler_steps = |g: &mut G| -> Vec<Op> {
        let _ = g;
        match rel {
            3 => vec![Op::Wait(9)],
            4 => vec![Op::Sleep(t / 2), Op::Panic],
            _ => {
                if dur > 0 {
                    vec![Op::Sleep(dur)]
                } else {
                    vec![]
                }
            }
        }
    };
    let is_ask = g.chance(600);
    let mut main = vec![Op::Sleep(10)];
    match mailbox {
        1 => {
            // a blocker occupies the handler, a filler occupies the single slot: the send must wait
            let block = match rel {
                0 => t.saturating_sub(1),
                1 => t,
                2 => t + 2,
                3 => 10_000,
                _ => t / 2,
            };
            let mut blocker_steps = vec![Op::Sleep(block)];
            if rel == 4 {
                blocker_steps.push(Op::Panic);
            }
            clients.push(vec![Op::Sleep(9), Op::Tell { h: 0, m: Msg::with(g.mid(), blocker_steps) }, Op::Yield(3), tell(0, g)]);
            main = vec![Op::Sleep(10)];
            if is_ask {
                main.push(Op::AskT { h: 0, m: Msg::work(g.mid()), ms: t });
            } else {
                main.push(Op::TellT { h: 0, m: Msg::work(g.mid()), ms: t });
            }
        }
        2 => {
            clients.push(vec![Op::Stop { h: 0 }]);
            let steps = handler_steps(g);
            if is_ask {
                main.push(Op::AskT { h: 0, m: Msg::with(g.mid(), steps), ms: t });
            } else {
                main.push(Op::TellT { h: 0, m: Msg::with(g.mid(), steps), ms: t });
            }
        }
        _ => {
            let steps = handler_steps(g);
            if is_ask {
                main.push(Op::AskT { h: 0, m: Msg::with(g.mid(), steps), ms: t });
            } else {
                main.push(Op::TellT { h: 0, m: Msg::with(g.mid(), steps), ms: t });
            }
            if rel == 4 && g.chance(500) {
                clients.push(vec![Op::Sleep(10 + t / 2), Op::Kill { h: 0 }]);
            }
        }
    }
    // sub-millisecond class
    if g.chance(150) {
        main.insert(1, Op::SleepUs(g.range(100, 900)));
    }
    clients.push(main);
    if g.chance(300) {
        clients.push(vec![Op::Sleep(10), ask(0, g)]);
    }
    Scenario { actors: vec![a], clients, probes: vec![], peer_slots: false, erase: None }
}

/// C08: on_run scripts with known await boundaries and messages arriving around them.
pub fn on_run_alignment(g: &mut G) -> Scenario {
    let cap = g.pick(&[1usize, 4, 32, 130, 256]);
    let mut a = ActorSpec { cap: Some(cap), ..Default::default() };
    let n = g.range(1, 5);
    let mut t = 0u64;
    let mut boundaries = Vec::new();
    for i in 0..n {
        let mut steps = Vec::new();
        for _ in 0..g.range(1, 2) {
            if g.chance(250) {
                steps.push(Op::Yield(g.range(1, 3) as u32));
            } else {
                let d = g.pick(&[1u64, 2, 3, 5]);
                t += d;
                boundaries.push(t);
                steps.push(Op::Sleep(d));
            }
        }
        let out = if i + 1 == n {
            match g.below(4) {
                0 => RunOut::Err(80 + i as i64),
                1 => RunOut::True, // the script list ends: the next invocation returns Ok(false)
                _ => RunOut::False,
            }
        } else {
            RunOut::True
        };
        a.on_run.push(RunScript { steps, out });
    }
    if boundaries.is_empty() {
        boundaries.push(1);
    }
    let mut clients: Vec<Vec<Op>> = Vec::new();
    let burst = cap >= 130 && g.chance(400);
    for _ in 0..g.range(1, 3) {
        let mut c = Vec::new();
        let mut now = 0u64;
        for _ in 0..g.range(1, 4) {
            let b = g.pick(&boundaries);
            let target = match g.below(3) {
                0 => b.saturating_sub(1),
                1 => b,
                _ => b + 1,
            };
            if target > now {
                c.push(Op::Sleep(target - now));
                now = target;
            }
            if burst {
                for _ in 0..g.range(129, 140) {
                    c.push(tell(0, g));
                }
            } else {
                c.push(if g.chance(700) { tell(0, g) } else { ask(0, g) });
            }
        }
        clients.push(c);
    }
    if g.chance(300) {
        clients.push(vec![Op::Sleep(g.pick(&boundaries)), Op::Kill { h: 0 }]);
    } else if g.chance(300) {
        clients.push(vec![Op::Sleep(t + 20), Op::Stop { h: 0 }]);
    }
    let probes = probes_for(g, 1, false);
    Scenario { actors: vec![a], clients, probes, peer_slots: false, erase: None }
}

/// C07/C11: a derivation walk over handles with samples at every point, plus traffic.
pub fn handle_walk(g: &mut G) -> Scenario {
    let n_actors = g.range(1, 2) as usize;
    let mut actors = Vec::new();
    for _ in 0..n_actors {
        let mut a = ActorSpec { cap: Some(g.pick(&[1usize, 2, 32])), ..Default::default() };
        if g.chance(400) {
            a.on_start = vec![Op::Sleep(3)];
        }
        if g.chance(400) {
            a.on_run = vec![RunScript { steps: vec![Op::Sleep(2)], out: RunOut::False }];
        }
        if g.chance(300) {
            a.on_stop = vec![Op::Sleep(3)];
        }
        actors.push(a);
    }
    let mut clients: Vec<Vec<Op>> = Vec::new();
    for c in 0..g.range(1, 3) as u32 {
        let mut ops = Vec::new();
        // slots of this walker: 100+c*20 ..; each entry = (slot, strong?, erased-kind)
        let mut strong: Vec<u32> = vec![g.below(n_actors as u64) as u32];
        let mut weak: Vec<u32> = Vec::new();
        let mut next = 100 + c * 20;
        for _ in 0..g.range(3, 10) {
            let s = g.pick(&strong);
            match g.below(12) {
                0 => {
                    ops.push(Op::Clone { h: s, to: next });
                    strong.push(next);
                    next += 1;
                }
                1 => {
                    ops.push(Op::Downgrade { h: s, to: next });
                    weak.push(next);
                    next += 1;
                }
                2 if !weak.is_empty() => {
                    let w = g.pick(&weak);
                    ops.push(Op::Upgrade { h: w, to: next });
                    ops.push(Op::Identity { h: next });
                    ops.push(Op::IsAlive { h: next });
                    strong.push(next);
                    next += 1;
                }
                3 => {
                    let kind = g.pick(&[EraseKind::Tell, EraseKind::Ask, EraseKind::Ctl]);
                    ops.push(Op::Erase { h: s, to: next, kind, by_ref: true });
                    strong.push(next);
                    next += 1;
                }
                4 if !weak.is_empty() => {
                    let w = g.pick(&weak);
                    let kind = g.pick(&[EraseKind::WTell, EraseKind::WAsk, EraseKind::WCtl]);
                    ops.push(Op::Erase { h: w, to: next, kind, by_ref: g.chance(500) });
                    weak.push(next);
                    next += 1;
                }
                5 => {
                    ops.push(Op::AsControl { h: s, to: next });
                    strong.push(next);
                    next += 1;
                }
                6 => ops.push(Op::Identity { h: if !weak.is_empty() && g.chance(400) { g.pick(&weak) } else { s } }),
                7 => ops.push(Op::IsAlive { h: if !weak.is_empty() && g.chance(300) { g.pick(&weak) } else { s } }),
                8 => ops.push(Op::Tell { h: s, m: Msg::work(g.mid()) }),
                9 => ops.push(Op::Ask { h: s, m: Msg::work(g.mid()) }),
                10 if strong.len() > 1 => {
                    let i = g.below(strong.len() as u64) as usize;
                    let d = strong.remove(i);
                    ops.push(Op::Drop { h: d });
                }
                _ => ops.push(Op::Sleep(g.range(1, 4))),
            }
        }
        // how the walk ends
        match g.below(5) {
            0 => ops.push(Op::Stop { h: g.pick(&strong) }),
            1 => ops.push(Op::Kill { h: g.pick(&strong) }),
            2 | 3 => {
                for s in strong.drain(..) {
                    ops.push(Op::Drop { h: s });
                }
            }
            _ => {}
        }
        // samples after the end
        ops.push(Op::Sleep(50));
        for w in weak.iter().take(3) {
            ops.push(Op::IsAlive { h: *w });
            ops.push(Op::Upgrade { h: *w, to: next });
            ops.push(Op::Drop { h: next });
            next += 1;
        }
        clients.push(ops);
    }
    let probes = probes_for(g, n_actors, false);
    Scenario { actors, clients, probes, peer_slots: false, erase: None }
}

/// C02: capacity 1-2 with several senders queued for a slot and a stop placed mid-traffic.
pub fn queued_senders(g: &mut G) -> Scenario {
    let cap = g.pick(&[1usize, 1, 2]);
    let a = ActorSpec { cap: Some(cap), ..Default::default() };
    let mut clients: Vec<Vec<Op>> = Vec::new();
    let n = g.range(3, 6);
    for _ in 0..n {
        let mut c = Vec::new();
        if g.chance(400) {
            c.push(Op::Sleep(g.range(0, 3)));
        }
        for _ in 0..g.range(2, 4) {
            let slow = g.below(3);
            let m = if slow > 0 { Msg::with(g.mid(), vec![Op::Sleep(slow)]) } else { Msg::work(g.mid()) };
            c.push(match g.below(10) {
                0..=5 => Op::Tell { h: 0, m },
                6 => Op::Ask { h: 0, m },
                7 => Op::TellT { h: 0, m, ms: g.pick(&[1u64, 5, 50, 3_600_000]) },
                8 => Op::AskT { h: 0, m, ms: g.pick(&[1u64, 5, 50, 3_600_000]) },
                _ => Op::Cancel { op: Box::new(Op::Tell { h: 0, m }), polls: 1, ms: None },
            });
        }
        clients.push(c);
    }
    if g.chance(700) {
        let c = g.below(n) as usize;
        let pos = g.below(clients[c].len() as u64 + 1) as usize;
        clients[c].insert(pos, Op::Stop { h: 0 });
        clients[c].push(tell(0, g));
    }
    Scenario { actors: vec![a], clients, probes: vec![], peer_slots: false, erase: None }
}

/// C01: references dropped immediately after the send returned.
pub fn send_then_drop(g: &mut G) -> Scenario {
    let cap = g.pick(&[1usize, 2, 4, 32]);
    let mut a = ActorSpec { cap: Some(cap), ..Default::default() };
    if g.chance(300) {
        a.on_start = vec![Op::Sleep(g.range(1, 5))];
    }
    if g.chance(300) {
        a.on_run = vec![RunScript { steps: vec![Op::Sleep(2)], out: RunOut::True }, RunScript { steps: vec![Op::Sleep(2)], out: RunOut::False }];
    }
    let n = g.range(1, 5);
    let mut clients: Vec<Vec<Op>> = Vec::new();
    for c in 0..n as u32 {
        let own = 100 + c;
        let mut ops = vec![Op::Clone { h: 0, to: own }];
        if c == 0 || g.chance(300) {
            ops.push(Op::Drop { h: 0 }); // the shared slot goes early
        }
        for _ in 0..g.range(1, 4) {
            let slow = g.below(3);
            let m = if slow > 0 { Msg::with(g.mid(), vec![Op::Sleep(slow)]) } else { Msg::work(g.mid()) };
            ops.push(if g.chance(800) { Op::Tell { h: own, m } } else { Op::TellT { h: own, m, ms: 3_600_000 } });
        }
        ops.push(Op::Drop { h: own });
        clients.push(ops);
    }
    Scenario { actors: vec![a], clients, probes: vec![], peer_slots: false, erase: None }
}
