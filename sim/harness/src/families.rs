//! Structured scenario families: situations that random mixing reaches too rarely, constructed on
//! purpose (cause x phase grids, aligned deadlines, full mailboxes, backlogs at the moment of a
//! kill). What is left open inside each cell - who wins a race, the order of same-instant events -
//! is the scheduler's.
use crate::gen::G;
use crate::model::*;

fn tell(h: u32, g: &mut G) -> Op {
    Op::Tell { h, m: Msg::work(g.mid()) }
}
fn tell_slow(h: u32, g: &mut G, ms: u64) -> Op {
    Op::Tell { h, m: Msg::with(g.mid(), vec![Op::Sleep(ms)]) }
}
fn ask(h: u32, g: &mut G) -> Op {
    Op::Ask { h, m: Msg::work(g.mid()) }
}
fn ask_slow(h: u32, g: &mut G, ms: u64) -> Op {
    Op::Ask { h, m: Msg::with(g.mid(), vec![Op::Sleep(ms)]) }
}
fn probes_for(g: &mut G, n_actors: usize, peer: bool) -> Vec<Vec<Op>> {
    let mut p = Vec::new();
    for a in 0..n_actors as u32 {
        p.push(Op::IsAlive { h: a });
        p.push(Op::Ask { h: a, m: Msg::work(g.mid()) });
        if peer {
            p.push(Op::Ask { h: 50 + a, m: Msg::work(g.mid()) });
        }
    }
    vec![p]
}

/// C04/C05: termination cause x arrival phase x second racing cause, enumerated by `index`.
pub fn lifecycle_grid(g: &mut G, index: u64) -> Scenario {
    let cell = index % 216;
    let cause = cell % 9;
    let phase = (cell / 9) % 6;
    let second = (cell / 54) % 4;
    let mut a = ActorSpec { cap: Some(g.pick(&[1usize, 2, 4, 32])), ..Default::default() };
    // hook shapes: on_start takes 5 ms, on_stop 10 ms, on_run sleeps in 50 ms slices
    a.on_start = vec![Op::Sleep(5)];
    a.on_stop = vec![Op::Sleep(10)];
    let runs = g.range(0, 3);
    for i in 0..runs {
        a.on_run.push(RunScript { steps: vec![Op::Sleep(50)], out: if i + 1 == runs && g.chance(500) { RunOut::False } else { RunOut::True } });
    }
    if phase == 3 && a.on_run.is_empty() {
        a.on_run.push(RunScript { steps: vec![Op::Sleep(50)], out: RunOut::True });
        a.on_run.push(RunScript { steps: vec![Op::Sleep(50)], out: RunOut::False });
    }
    let mut traffic: Vec<Op> = Vec::new();
    let mut actor_ops: Vec<Op> = Vec::new(); // the client that delivers the cause
    // when does the cause arrive?
    let t_act = match phase {
        0 => g.range(0, 4),  // during on_start
        1 => 300,            // idle (on_run scripts are over or asleep)
        2 => 8,              // during a handler that runs 6..16
        3 => g.range(10, 40), // during an on_run await
        4 => 8,              // during on_stop (a stop was accepted at 6)
        _ => 8,              // mailbox non-empty behind a busy handler
    };
    match phase {
        2 => traffic.extend([Op::Sleep(6), tell_slow(0, g, 10)]),
        4 => traffic.extend([Op::Sleep(6), Op::Stop { h: 0 }]),
        5 => {
            traffic.extend([Op::Sleep(6), tell_slow(0, g, 10)]);
            for _ in 0..g.range(1, 3) {
                traffic.push(if g.chance(300) { ask(0, g) } else { tell(0, g) });
            }
        }
        _ => {
            if g.chance(500) {
                traffic.push(tell(0, g));
            }
        }
    }
    actor_ops.push(Op::Sleep(t_act));
    let terminating = |g: &mut G, which: u64| -> Vec<Op> {
        match which {
            0 => vec![Op::Stop { h: 0 }],
            1 => vec![Op::Kill { h: 0 }],
            _ => vec![Op::Drop { h: 0 }, Op::Drop { h: 50 }, Op::Yield(g.range(0, 1) as u32)],
        }
    };
    match cause {
        0 => actor_ops.extend(terminating(g, 0)),
        1 => actor_ops.extend(terminating(g, 1)),
        2 => actor_ops.extend(terminating(g, 2)),
        3 => {
            // on_run error at the k-th invocation
            let k = g.below(3) as usize;
            while a.on_run.len() <= k {
                a.on_run.push(RunScript { steps: vec![Op::Sleep(5)], out: RunOut::True });
            }
            a.on_run[k].out = RunOut::Err(700 + k as i64);
            a.on_run.truncate(k + 1);
            if g.chance(400) {
                a.on_stop.push(Op::Fail(750));
            }
        }
        4 => {
            let m = Msg::with(g.mid(), vec![Op::Sleep(g.range(0, 2)), Op::Panic]);
            actor_ops.push(if g.chance(500) { Op::Tell { h: 0, m } } else { Op::Ask { h: 0, m } });
        }
        5 => a.on_start.push(Op::Fail(500)),
        6 => a.on_start.push(Op::Panic),
        7 => {
            a.on_stop.push(Op::Fail(600));
            let w = g.below(3);
            actor_ops.extend(terminating(g, w));
        }
        _ => {
            a.on_stop.push(Op::Panic);
            let w = g.below(3);
            actor_ops.extend(terminating(g, w));
        }
    }
    let mut clients = vec![traffic, actor_ops];
    if second > 0 {
        let mut c = vec![Op::Sleep(t_act)];
        c.extend(terminating(g, second - 1));
        clients.push(c);
    }
    // somebody finally lets go of every reference so that stop-less cells also end
    if g.chance(600) {
        clients.push(vec![Op::Sleep(2_000), Op::Drop { h: 0 }, Op::Drop { h: 50 }]);
    }
    let probes = probes_for(g, 1, true);
    Scenario { actors: vec![a], clients, probes, peer_slots: true, erase: None, expect: None }
}

/// C06: a backlog of 0..capacity(+2) messages at the moment of the kill, in every actor phase.
pub fn kill_backlog(g: &mut G) -> Scenario {
    let cap = g.pick(&[1usize, 4, 32, 130]);
    let phase = g.below(4); // 0 on_start, 1 handler, 2 on_run await, 3 idle
    let mut a = ActorSpec { cap: Some(cap), ..Default::default() };
    if phase == 0 {
        a.on_start = vec![Op::Sleep(10)];
    }
    if phase == 2 {
        a.on_run = vec![RunScript { steps: vec![Op::Sleep(100)], out: RunOut::True }, RunScript { steps: vec![Op::Sleep(100)], out: RunOut::False }];
    }
    if g.chance(300) {
        a.on_stop = vec![Op::Sleep(3)];
    }
    let backlog = match g.below(4) {
        0 => 0,
        1 => g.range(1, 3).min(cap as u64 + 2),
        2 => cap as u64,
        _ => (cap as u64 + g.range(1, 2)).min(140),
    };
    let mut clients: Vec<Vec<Op>> = Vec::new();
    let mut filler = Vec::new();
    let t_kill = match phase {
        0 => 5,
        1 => 25,
        2 => 30,
        _ => 500,
    };
    if phase == 1 {
        filler.push(Op::Sleep(20));
        filler.push(tell_slow(0, g, 10));
    } else if phase == 3 {
        filler.push(Op::Sleep(400));
    }
    // the backlog itself: several senders when it exceeds the capacity (the excess blocks)
    let senders = if backlog > cap as u64 { 2 + g.below(2) } else { 1 };
    let mut per: Vec<Vec<Op>> = (0..senders).map(|_| Vec::new()).collect();
    for i in 0..backlog {
        let s = (i % senders) as usize;
        let op = if g.chance(250) { ask(0, g) } else if g.chance(100) { Op::AskT { h: 0, m: Msg::work(g.mid()), ms: g.pick(&[1u64, 50, 3_600_000]) } } else { tell(0, g) };
        per[s].push(op);
    }
    if phase == 1 || phase == 3 {
        // the backlog is queued right before the kill
        for p in per.iter_mut() {
            p.insert(0, Op::Sleep(t_kill - 2));
        }
    }
    // with a busy/starting actor the backlog stays queued; with an idle one it races the kill
    filler.extend(per.remove(0));
    clients.push(filler);
    clients.extend(per);
    let mut killer = vec![Op::Sleep(t_kill), Op::Kill { h: 0 }];
    for _ in 0..g.below(3) {
        killer.push(Op::Kill { h: 0 });
    }
    if g.chance(300) {
        killer.push(Op::Sleep(50));
        killer.push(Op::Kill { h: 0 }); // kill on a dead actor
        killer.push(tell(0, g));
    }
    clients.push(killer);
    match g.below(4) {
        0 => clients.push(vec![Op::Sleep(t_kill), Op::Stop { h: 0 }]),
        1 => clients.push(vec![Op::Sleep(t_kill), Op::Drop { h: 0 }]),
        _ => {}
    }
    Scenario { actors: vec![a], clients, probes: vec![], peer_slots: false, erase: None, expect: None }
}

/// C03/C13: concurrent askers while the actor ends in one of seven ways.
pub fn askers_vs_ending(g: &mut G) -> Scenario {
    let cap = g.pick(&[1usize, 1, 2, 4, 32]);
    let mut a = ActorSpec { cap: Some(cap), ..Default::default() };
    let ending = g.below(8);
    let n_askers = g.range(2, 6);
    let mut clients: Vec<Vec<Op>> = Vec::new();
    // keep the actor busy so that asks are queued / blocked when the ending arrives
    let busy = g.chance(700);
    let mut first = Vec::new();
    if busy {
        first.push(ask_slow(0, g, 10));
    }
    clients.push(first);
    for _ in 0..n_askers {
        let mut c = vec![Op::Sleep(g.range(0, 3))];
        for _ in 0..g.range(1, 3) {
            c.push(match g.below(10) {
                0..=4 => ask(0, g),
                5 => Op::AskT { h: 0, m: Msg::work(g.mid()), ms: g.pick(&[1u64, 5, 50, 3_600_000]) },
                6 => ask_slow(0, g, 2),
                7 => Op::AskJoin { h: 0, m: Msg { id: g.mid(), kind: MsgKind::Join { delay_ms: g.pick(&[0u64, 1, 2, 5, 20, 100]), out: g.pick(&[JobOut::Value, JobOut::Value, JobOut::Panic, JobOut::Abort]) }, steps: vec![] } },
                8 => tell(0, g),
                _ => Op::TellT { h: 0, m: Msg::work(g.mid()), ms: g.pick(&[1u64, 5, 50]) },
            });
        }
        // later asks, after the ending
        if g.chance(500) {
            c.push(Op::Sleep(100));
            c.push(ask(0, g));
        }
        clients.push(c);
    }
    let t_end = g.range(1, 8);
    let mut ender = vec![Op::Sleep(t_end)];
    match ending {
        0 => ender.push(Op::Stop { h: 0 }),
        1 => ender.push(Op::Kill { h: 0 }),
        2 => {
            // all references dropped: every client drops the shared slot (harmless when repeated)
            ender.push(Op::Drop { h: 0 });
        }
        3 => a.on_start = vec![Op::Sleep(3), Op::Fail(41)],
        4 => a.on_run = vec![RunScript { steps: vec![Op::Sleep(t_end)], out: RunOut::Err(42) }],
        5 => ender.push(Op::Tell { h: 0, m: Msg::with(g.mid(), vec![Op::Panic]) }),
        6 => a.on_start = vec![Op::Sleep(3), Op::Panic],
        _ => {
            a.on_stop = vec![Op::Panic];
            ender.push(Op::Stop { h: 0 });
        }
    }
    clients.push(ender);
    Scenario { actors: vec![a], clients, probes: vec![], peer_slots: false, erase: None, expect: None }
}

/// C09: the actor is stalled (in a handler or in on_start); senders fill the mailbox; a probe phase
/// releases the stall and everything accepted must come out in order.
pub fn stalled_capacity(g: &mut G) -> Scenario {
    let cap = g.pick(&[Some(1usize), Some(2), Some(3), Some(4), Some(8), None]);
    let capn = cap.unwrap_or(32) as u64;
    let mut a = ActorSpec { cap, ..Default::default() };
    let stall_in_start = g.chance(300);
    let mut clients: Vec<Vec<Op>> = Vec::new();
    if stall_in_start {
        a.on_start = vec![Op::Wait(1)];
    } else {
        clients.push(vec![Op::Tell { h: 0, m: Msg::with(g.mid(), vec![Op::Wait(1)]) }]);
    }
    let extra = g.range(0, 3);
    let total = capn + extra;
    let senders = g.range(1, 4).min(total.max(1));
    let mut per: Vec<Vec<Op>> = (0..senders).map(|_| vec![Op::Sleep(5)]).collect();
    let stop_at = if g.chance(300) { Some(g.below(total)) } else { None };
    for i in 0..total {
        let s = (i % senders) as usize;
        if Some(i) == stop_at {
            per[s].push(Op::Stop { h: 0 });
        } else if g.chance(100) {
            per[s].push(Op::TellT { h: 0, m: Msg::work(g.mid()), ms: 3_600_000 });
        } else {
            per[s].push(tell(0, g));
        }
    }
    clients.extend(per);
    let probes = vec![vec![Op::Signal(1), Op::Sleep(1), Op::Ask { h: 0, m: Msg::work(g.mid()) }]];
    Scenario { actors: vec![a], clients, probes, peer_slots: false, erase: None, expect: None }
}

/// C07 / C02 / C09: an operation that is *abandoned* (cancelled after a few polls, cancelled by a timer, or the loser
/// of a race) while it waits for room in a full mailbox must leave nothing behind: the same kind of operation issued
/// later - through the same or through another handle - works as if the first one had never been started.
pub fn abandoned_ops(g: &mut G) -> Scenario {
    let cap = g.pick(&[1usize, 1, 2, 3]);
    let a = ActorSpec { cap: Some(cap), ..Default::default() };
    // client 0: one message whose handler waits for the barrier, then exactly `cap` more: the mailbox is full
    let mut c0 = vec![Op::Tell { h: 0, m: Msg::with(g.mid(), vec![Op::Wait(1)]) }, Op::Yield(2)];
    for _ in 0..cap {
        c0.push(tell(0, g));
    }
    // client 1: abandons an operation on the full mailbox, releases the actor, then does it again for good
    let mut c1 = vec![Op::Sleep(2)];
    let other = 60;
    let via_other = g.chance(500);
    if via_other {
        c1.push(match g.below(3) {
            0 => Op::Clone { h: 0, to: other },
            1 => Op::AsControl { h: 0, to: other },
            _ => Op::Erase { h: 0, to: other, kind: EraseKind::Ctl, by_ref: true },
        });
    }
    let kind = g.below(4); // 0,1: stop; 2: tell; 3: ask
    let victim = |g: &mut G| match kind {
        0 | 1 => Op::Stop { h: 0 },
        2 => tell(0, g),
        _ => ask(0, g),
    };
    let v = victim(g);
    c1.push(match g.below(3) {
        0 => Op::Cancel { op: Box::new(v), polls: g.range(1, 2) as u32, ms: None },
        1 => Op::Cancel { op: Box::new(v), polls: 0, ms: Some(g.range(1, 3)) },
        _ => Op::Race(vec![v, Op::Sleep(g.range(1, 3))]),
    });
    c1.push(Op::Sleep(3));
    c1.push(Op::Signal(1));
    c1.push(Op::Sleep(5));
    let again = match kind {
        0 | 1 => Op::Stop { h: if via_other { other } else { 0 } },
        2 => tell(0, g),
        _ => ask(0, g),
    };
    c1.push(again);
    if kind >= 2 && g.chance(500) {
        c1.push(Op::Stop { h: if via_other { other } else { 0 } });
    }
    Scenario { actors: vec![a], clients: vec![c0, c1], probes: vec![], peer_slots: false, erase: None, expect: None }
}

/// C11 / C07: every strong handle is dropped while accepted work - a message, a stop request, or both - is still queued
/// behind a busy handler. The queued envelope / marker keeps the actor reachable: a weak handle must still upgrade
/// (and what it yields is a full reference: it can send, stop and kill) until the queue has been served.
pub fn upgrade_while_queued(g: &mut G) -> Scenario {
    let a = ActorSpec { cap: Some(g.pick(&[2usize, 4, 32])), ..Default::default() };
    let what = g.below(3); // 0 message, 1 stop marker, 2 both
    // either the actor is busy in a handler (which itself holds a reference), or it is idle and simply has not been
    // scheduled since the work was queued - then the queued item is the only thing that refers to it
    let mut c = if g.chance(500) {
        vec![Op::Tell { h: 0, m: Msg::with(g.mid(), vec![Op::Sleep(g.range(3, 8))]) }, Op::Downgrade { h: 0, to: 100 }]
    } else {
        vec![Op::Sleep(g.range(1, 3)), Op::Downgrade { h: 0, to: 100 }]
    };
    if g.chance(200) {
        c.push(Op::Yield(g.range(1, 2) as u32));
    }
    if what != 1 {
        c.push(tell(0, g));
    }
    if what != 0 {
        c.push(Op::Stop { h: 0 });
    }
    c.push(Op::Drop { h: 0 });
    if g.chance(300) {
        c.push(Op::Yield(1));
    }
    c.push(Op::Upgrade { h: 100, to: 101 });
    c.push(Op::Identity { h: 101 });
    match g.below(4) {
        0 => c.push(Op::Kill { h: 101 }),
        1 => c.push(tell(101, g)),
        2 => c.push(Op::Stop { h: 101 }),
        _ => {}
    }
    c.push(Op::Drop { h: 101 });
    c.push(Op::Sleep(20));
    c.push(Op::Upgrade { h: 100, to: 102 });
    Scenario { actors: vec![a], clients: vec![c], probes: vec![], peer_slots: false, erase: None, expect: None }
}

/// C07: an ask_join whose caller gives up while the job that the handler spawned is still running, after which every
/// strong handle is dropped. The handler has long returned and the job holds no reference: the actor must end at
/// that instant, not when the job finishes.
pub fn abandoned_ask_join(g: &mut G) -> Scenario {
    let a = ActorSpec { cap: Some(g.pick(&[2usize, 4, 32])), ..Default::default() };
    let delay = g.pick(&[10u64, 20, 50]);
    let m = Msg { id: g.mid(), kind: MsgKind::Join { delay_ms: delay, out: g.pick(&[JobOut::Value, JobOut::Value, JobOut::Panic]) }, steps: vec![] };
    let give_up = g.range(1, 5);
    let victim = Op::AskJoin { h: 0, m };
    let mut c = vec![match g.below(3) {
        0 => Op::Cancel { op: Box::new(victim), polls: 0, ms: Some(give_up) },
        1 => Op::Race(vec![victim, Op::Sleep(give_up)]),
        _ => Op::Cancel { op: Box::new(victim), polls: g.range(2, 3) as u32, ms: None },
    }];
    if g.chance(500) {
        c.push(Op::Downgrade { h: 0, to: 100 });
    }
    if g.chance(300) {
        c.push(tell(0, g));
    }
    c.push(Op::Drop { h: 0 });
    c.push(Op::Sleep(1));
    c.push(Op::Upgrade { h: 100, to: 101 });
    Scenario { actors: vec![a], clients: vec![c], probes: vec![], peer_slots: false, erase: None, expect: None }
}

/// C01 / C02 / C08: an actor with a periodic on_run (an interval: a round completes at once when its tick is overdue)
/// under a backlog that keeps the mailbox non-empty for dozens of messages, handlers slower than the period. Every
/// accepted message is handled, in order, before on_stop; on_run never runs while a message waits.
pub fn interval_under_backlog(g: &mut G) -> Scenario {
    let cap = g.pick(&[None, Some(32usize), Some(64), Some(130)]);
    let mut a = ActorSpec { cap, ..Default::default() };
    let period = g.pick(&[1u64, 1, 2]);
    let rounds = g.range(40, 90);
    for _ in 0..rounds {
        a.on_run.push(RunScript { steps: vec![Op::Tick(period)], out: RunOut::True });
    }
    a.on_run.push(RunScript { steps: vec![], out: RunOut::False });
    let n = g.range(34, 110);
    let senders = g.range(1, 3);
    let mut clients: Vec<Vec<Op>> = (0..senders).map(|_| Vec::new()).collect();
    for i in 0..n {
        let steps = match g.below(4) {
            0 => vec![],
            1 => vec![Op::Yield(1)],
            _ => vec![Op::Sleep(g.pick(&[1u64, 2, 3]))],
        };
        let m = Msg::with(g.mid(), steps);
        let c = (i % senders) as usize;
        clients[c].push(if g.chance(150) { Op::Ask { h: 0, m } } else { Op::Tell { h: 0, m } });
    }
    match g.below(3) {
        0 => clients[0].push(Op::Stop { h: 0 }),
        1 => {
            for c in clients.iter_mut() {
                c.push(Op::Sleep(400));
            }
            clients[0].push(Op::Drop { h: 0 });
        }
        _ => {}
    }
    Scenario { actors: vec![a], clients, probes: vec![], peer_slots: false, erase: None, expect: None }
}

/// C10: the natural completion time of the operation placed before / at / after / never relative to
/// the deadline, with the mailbox free, full or closed and the actor possibly dying first.
pub fn deadline_alignment(g: &mut G) -> Scenario {
    let t = g.pick(&[0u64, 1, 2, 5, 50]);
    let rel = g.below(5); // 0 before, 1 at, 2 after, 3 never, 4 actor dies first
    let dur = match rel {
        0 => t.saturating_sub(g.range(1, 2)),
        1 => t,
        2 => t + g.range(1, 3),
        _ => 0,
    };
    let mailbox = g.below(3); // 0 free, 1 full, 2 closed
    let cap = if mailbox == 1 { 1 } else { g.pick(&[1usize, 2, 32]) };
    let a = ActorSpec { cap: Some(cap), ..Default::default() };
    let mut clients: Vec<Vec<Op>> = Vec::new();
    let handler_steps = |g: &mut G| -> Vec<Op> {
        let _ = g;
        match rel {
            3 => vec![Op::Wait(9)],
            4 => vec![Op::Sleep(t / 2), Op::Panic],
            _ => {
                if dur > 0 {
                    vec![Op::Sleep(dur)]
                } else {
                    vec![]
                }
            }
        }
    };
    let is_ask = g.chance(600);
    let mut main = vec![Op::Sleep(10)];
    match mailbox {
        1 => {
            // a blocker occupies the handler, a filler occupies the single slot: the send must wait
            let block = match rel {
                0 => t.saturating_sub(1),
                1 => t,
                2 => t + 2,
                3 => 10_000,
                _ => t / 2,
            };
            let mut blocker_steps = vec![Op::Sleep(block)];
            if rel == 4 {
                blocker_steps.push(Op::Panic);
            }
            clients.push(vec![Op::Sleep(9), Op::Tell { h: 0, m: Msg::with(g.mid(), blocker_steps) }, Op::Yield(3), tell(0, g)]);
            main = vec![Op::Sleep(10)];
            if is_ask {
                main.push(Op::AskT { h: 0, m: Msg::work(g.mid()), ms: t });
            } else {
                main.push(Op::TellT { h: 0, m: Msg::work(g.mid()), ms: t });
            }
        }
        2 => {
            clients.push(vec![Op::Stop { h: 0 }]);
            let steps = handler_steps(g);
            if is_ask {
                main.push(Op::AskT { h: 0, m: Msg::with(g.mid(), steps), ms: t });
            } else {
                main.push(Op::TellT { h: 0, m: Msg::with(g.mid(), steps), ms: t });
            }
        }
        _ => {
            let steps = handler_steps(g);
            if is_ask {
                main.push(Op::AskT { h: 0, m: Msg::with(g.mid(), steps), ms: t });
            } else {
                main.push(Op::TellT { h: 0, m: Msg::with(g.mid(), steps), ms: t });
            }
            if rel == 4 && g.chance(500) {
                clients.push(vec![Op::Sleep(10 + t / 2), Op::Kill { h: 0 }]);
            }
        }
    }
    // sub-millisecond class: invocation off the millisecond grid and / or a sub-millisecond timeout
    if g.chance(150) {
        main.insert(1, Op::SleepUs(g.range(100, 900)));
    }
    if g.chance(200) {
        let us = g.pick(&[1u64, 100, 250, 500, 900, 999]);
        for o in main.iter_mut() {
            let new = match o {
                Op::TellT { h, m, .. } => Some(Op::TellUs { h: *h, m: m.clone(), us }),
                Op::AskT { h, m, .. } => Some(Op::AskUs { h: *h, m: m.clone(), us }),
                _ => None,
            };
            if let Some(n) = new {
                *o = n;
            }
        }
    }
    clients.push(main);
    let main_idx = clients.len() - 1;
    let mut erase = None;
    if g.chance(300) {
        clients.push(vec![Op::Sleep(10), ask(0, g)]);
    }
    // fan-out class (drawn last, so the other classes keep their scenarios): the timed call is made, its future is
    // awaited only later - the deadline counts from the first poll, whichever handle type made the call
    if g.chance(200) {
        let us = g.pick(&[1u64, 1000, 2000, (t * 1000) / 2, t * 1000, t * 1000 + 1000]).max(1);
        for o in clients[main_idx].iter_mut() {
            if matches!(o, Op::TellT { .. } | Op::AskT { .. } | Op::TellUs { .. } | Op::AskUs { .. }) {
                *o = Op::Deferred { op: Box::new(o.clone()), us };
            }
        }
        // ... including a type-erased one (Box<dyn TellHandler> / Box<dyn AskHandler>): same deadline rule
        if g.chance(500) {
            erase = Some(g.below(1 << 40) | 1);
        }
    }
    Scenario { actors: vec![a], clients, probes: vec![], peer_slots: false, erase, expect: None }
}

/// C08: on_run scripts with known await boundaries and messages arriving around them.
pub fn on_run_alignment(g: &mut G) -> Scenario {
    let cap = g.pick(&[1usize, 4, 32, 130, 256]);
    let mut a = ActorSpec { cap: Some(cap), ..Default::default() };
    let n = g.range(1, 5);
    let mut t = 0u64;
    let mut boundaries = Vec::new();
    for i in 0..n {
        let mut steps = Vec::new();
        for _ in 0..g.range(1, 2) {
            if g.chance(250) {
                steps.push(Op::Yield(g.range(1, 3) as u32));
            } else {
                let mut d = g.pick(&[1u64, 2, 3, 5]);
                if g.chance(60) {
                    // a round that stays pending for seconds of virtual time while nothing arrives (anything periodic in the
                    // actor loop - a feature's idle timer, say - would cut it short and start it again)
                    d = g.pick(&[1000u64, 1500, 2500, 61_000]);
                }
                t += d;
                boundaries.push(t);
                steps.push(Op::Sleep(d));
            }
        }
        let out = if i + 1 == n {
            match g.below(4) {
                0 => RunOut::Err(80 + i as i64),
                1 => RunOut::True, // the script list ends: the next invocation returns Ok(false)
                _ => RunOut::False,
            }
        } else {
            RunOut::True
        };
        a.on_run.push(RunScript { steps, out });
    }
    if boundaries.is_empty() {
        boundaries.push(1);
    }
    let mut clients: Vec<Vec<Op>> = Vec::new();
    if cap >= 130 && g.chance(350) {
        // cooperative-budget edge: a burst of b messages is served in one poll (128 budget units, one per
        // message taken), then on_run performs k immediately-ready budgeted operations and completes; b + k is
        // placed around 128 so that the budget runs out exactly when on_run finishes; another message arrives
        // at the same virtual instant
        let b = g.range(116, 127);
        let k = (128 - b) as i64 + g.range(0, 2) as i64 - 1;
        let out = match g.below(3) {
            0 => RunOut::Err(90),
            1 => RunOut::True,
            _ => RunOut::False,
        };
        // invocation 0 is asleep when the burst arrives (the arriving message cancels it); invocation 1 is
        // created and polled right after the burst, in the same poll of the actor task
        a.on_run = vec![RunScript { steps: vec![Op::Sleep(100)], out: RunOut::True }, RunScript { steps: vec![Op::ConsumeBudget(k.max(1) as u32)], out }];
        if g.chance(500) {
            a.on_run.push(RunScript { steps: vec![Op::Sleep(3)], out: RunOut::False });
        }
        let mut c = vec![Op::Sleep(5)];
        for _ in 0..b {
            c.push(tell(0, g));
        }
        clients.push(c);
        clients.push(vec![Op::Sleep(5), Op::Yield(g.range(0, 3) as u32), tell(0, g), Op::Yield(1), tell(0, g)]);
        if g.chance(300) {
            clients.push(vec![Op::Sleep(5), Op::Yield(g.range(0, 3) as u32), Op::Kill { h: 0 }]);
        }
        let probes = probes_for(g, 1, false);
        return Scenario { actors: vec![a], clients, probes, peer_slots: false, erase: None, expect: None };
    }
    let burst = cap >= 130 && g.chance(400);
    for _ in 0..g.range(1, 3) {
        let mut c = Vec::new();
        let mut now = 0u64;
        for _ in 0..g.range(1, 4) {
            let b = g.pick(&boundaries);
            let target = match g.below(3) {
                0 => b.saturating_sub(1),
                1 => b,
                _ => b + 1,
            };
            if target > now {
                c.push(Op::Sleep(target - now));
                now = target;
            }
            if burst {
                for _ in 0..g.range(129, 140) {
                    c.push(tell(0, g));
                }
            } else {
                c.push(if g.chance(700) { tell(0, g) } else { ask(0, g) });
            }
        }
        clients.push(c);
    }
    if g.chance(300) {
        clients.push(vec![Op::Sleep(g.pick(&boundaries)), Op::Kill { h: 0 }]);
    } else if g.chance(300) {
        clients.push(vec![Op::Sleep(t + 20), Op::Stop { h: 0 }]);
    }
    let probes = probes_for(g, 1, false);
    Scenario { actors: vec![a], clients, probes, peer_slots: false, erase: None, expect: None }
}

/// C07/C11: a derivation walk over handles with samples at every point, plus traffic.
pub fn handle_walk(g: &mut G) -> Scenario {
    let n_actors = g.range(1, 2) as usize;
    let mut actors = Vec::new();
    for _ in 0..n_actors {
        let mut a = ActorSpec { cap: Some(g.pick(&[1usize, 2, 32])), ..Default::default() };
        if g.chance(400) {
            a.on_start = vec![Op::Sleep(3)];
        }
        if g.chance(400) {
            a.on_run = vec![RunScript { steps: vec![Op::Sleep(2)], out: RunOut::False }];
        }
        if g.chance(300) {
            a.on_stop = vec![Op::Sleep(3)];
        }
        actors.push(a);
    }
    let mut clients: Vec<Vec<Op>> = Vec::new();
    for c in 0..g.range(1, 3) as u32 {
        let mut ops = Vec::new();
        // slots of this walker: 100+c*20 ..; each entry = (slot, strong?, erased-kind)
        let mut strong: Vec<u32> = vec![g.below(n_actors as u64) as u32];
        let mut weak: Vec<u32> = Vec::new();
        let mut next = 100 + c * 20;
        for _ in 0..g.range(3, 10) {
            let s = g.pick(&strong);
            match g.below(12) {
                0 => {
                    ops.push(Op::Clone { h: s, to: next });
                    strong.push(next);
                    next += 1;
                }
                1 => {
                    ops.push(Op::Downgrade { h: s, to: next });
                    weak.push(next);
                    next += 1;
                }
                2 if !weak.is_empty() => {
                    let w = g.pick(&weak);
                    ops.push(Op::Upgrade { h: w, to: next });
                    ops.push(Op::Identity { h: next });
                    ops.push(Op::IsAlive { h: next });
                    strong.push(next);
                    next += 1;
                }
                3 => {
                    let kind = g.pick(&[EraseKind::Tell, EraseKind::Ask, EraseKind::Ctl]);
                    ops.push(Op::Erase { h: s, to: next, kind, by_ref: true });
                    strong.push(next);
                    next += 1;
                }
                4 if !weak.is_empty() => {
                    let w = g.pick(&weak);
                    let kind = g.pick(&[EraseKind::WTell, EraseKind::WAsk, EraseKind::WCtl]);
                    ops.push(Op::Erase { h: w, to: next, kind, by_ref: g.chance(500) });
                    weak.push(next);
                    next += 1;
                }
                5 => {
                    ops.push(Op::AsControl { h: s, to: next });
                    strong.push(next);
                    next += 1;
                }
                6 => ops.push(Op::Identity { h: if !weak.is_empty() && g.chance(400) { g.pick(&weak) } else { s } }),
                7 => ops.push(Op::IsAlive { h: if !weak.is_empty() && g.chance(300) { g.pick(&weak) } else { s } }),
                8 => ops.push(Op::Tell { h: s, m: Msg::work(g.mid()) }),
                9 => ops.push(Op::Ask { h: s, m: Msg::work(g.mid()) }),
                10 if strong.len() > 1 => {
                    let i = g.below(strong.len() as u64) as usize;
                    let d = strong.remove(i);
                    ops.push(Op::Drop { h: d });
                }
                _ => ops.push(Op::Sleep(g.range(1, 4))),
            }
        }
        // how the walk ends
        match g.below(5) {
            0 => ops.push(Op::Stop { h: g.pick(&strong) }),
            1 => ops.push(Op::Kill { h: g.pick(&strong) }),
            2 | 3 => {
                for s in strong.drain(..) {
                    ops.push(Op::Drop { h: s });
                }
            }
            _ => {}
        }
        // samples after the end
        ops.push(Op::Sleep(50));
        for w in weak.iter().take(3) {
            ops.push(Op::IsAlive { h: *w });
            ops.push(Op::Upgrade { h: *w, to: next });
            ops.push(Op::Drop { h: next });
            next += 1;
        }
        clients.push(ops);
    }
    let probes = probes_for(g, n_actors, false);
    Scenario { actors, clients, probes, peer_slots: false, erase: None, expect: None }
}

/// C02: capacity 1-2 with several senders queued for a slot and a stop placed mid-traffic.
pub fn queued_senders(g: &mut G) -> Scenario {
    let cap = g.pick(&[1usize, 1, 2]);
    let a = ActorSpec { cap: Some(cap), ..Default::default() };
    let mut clients: Vec<Vec<Op>> = Vec::new();
    let n = g.range(3, 6);
    for _ in 0..n {
        let mut c = Vec::new();
        if g.chance(400) {
            c.push(Op::Sleep(g.range(0, 3)));
        }
        for _ in 0..g.range(2, 4) {
            let slow = g.below(3);
            let m = if slow > 0 { Msg::with(g.mid(), vec![Op::Sleep(slow)]) } else { Msg::work(g.mid()) };
            c.push(match g.below(10) {
                0..=5 => Op::Tell { h: 0, m },
                6 => Op::Ask { h: 0, m },
                7 => Op::TellT { h: 0, m, ms: g.pick(&[1u64, 5, 50, 3_600_000]) },
                8 => Op::AskT { h: 0, m, ms: g.pick(&[1u64, 5, 50, 3_600_000]) },
                _ => Op::Cancel { op: Box::new(Op::Tell { h: 0, m }), polls: 1, ms: None },
            });
        }
        clients.push(c);
    }
    if g.chance(700) {
        let c = g.below(n) as usize;
        let pos = g.below(clients[c].len() as u64 + 1) as usize;
        clients[c].insert(pos, Op::Stop { h: 0 });
        clients[c].push(tell(0, g));
    }
    Scenario { actors: vec![a], clients, probes: vec![], peer_slots: false, erase: None, expect: None }
}

/// C01: references dropped immediately after the send returned.
pub fn send_then_drop(g: &mut G) -> Scenario {
    let cap = g.pick(&[1usize, 2, 4, 32]);
    let mut a = ActorSpec { cap: Some(cap), ..Default::default() };
    if g.chance(300) {
        a.on_start = vec![Op::Sleep(g.range(1, 5))];
    }
    if g.chance(300) {
        a.on_run = vec![RunScript { steps: vec![Op::Sleep(2)], out: RunOut::True }, RunScript { steps: vec![Op::Sleep(2)], out: RunOut::False }];
    }
    let n = g.range(1, 5);
    let mut clients: Vec<Vec<Op>> = Vec::new();
    for c in 0..n as u32 {
        let own = 100 + c;
        let mut ops = vec![Op::Clone { h: 0, to: own }];
        if c == 0 || g.chance(300) {
            ops.push(Op::Drop { h: 0 }); // the shared slot goes early
        }
        for _ in 0..g.range(1, 4) {
            let slow = g.below(3);
            let m = if slow > 0 { Msg::with(g.mid(), vec![Op::Sleep(slow)]) } else { Msg::work(g.mid()) };
            ops.push(if g.chance(800) { Op::Tell { h: own, m } } else { Op::TellT { h: own, m, ms: 3_600_000 } });
        }
        ops.push(Op::Drop { h: own });
        clients.push(ops);
    }
    Scenario { actors: vec![a], clients, probes: vec![], peer_slots: false, erase: None, expect: None }
}

// -------------------------------------------------------------------------------------------------
// deadlock-detection families (C14 / C15)

fn ask_variant(g: &mut G, h: u32, m: Msg) -> Op {
    match g.below(4) {
        0 => Op::AskT { h, m, ms: 3_600_000 },
        1 => Op::AskT { h, m, ms: FOREVER },
        _ => Op::Ask { h, m },
    }
}

/// the message that makes actor i ask actor i+1 ... and the last one ask `back_to`
fn chain_msg(g: &mut G, from: usize, len: usize, back_to: usize, pad: bool) -> Msg {
    // message handled by actor `from`; its handler asks the next one
    let id = g.mid();
    let next = if from + 1 == len { back_to } else { from + 1 };
    let inner = if from + 1 == len { Msg::work(g.mid()) } else { chain_msg(g, from + 1, len, back_to, pad) };
    let mut steps = Vec::new();
    if pad && g.chance(300) {
        steps.push(Op::Yield(g.range(1, 2) as u32));
    }
    if pad && g.chance(150) {
        steps.push(Op::Sleep(g.range(1, 3)));
    }
    steps.push(ask_variant(g, 50 + next as u32, inner));
    Msg { id, kind: MsgKind::Work, steps }
}

/// C14: cycles that must close in every schedule. Placement: 0 handler chain, 1 on_start-headed,
/// 2 on_run-headed, 3 on_stop-headed, 4 on_start ring, 5 on_stop ring, 6 parked first ask, 7 on_stop closes the cycle
/// over a request that its actor left unhandled in the mailbox.
pub fn forced_cycle(g: &mut G, index: u64) -> Scenario {
    let mut len = 1 + (index % 5) as usize;
    let placement = (index / 5) % 8;
    if placement == 7 && len == 1 {
        len = 2;
    }
    let mut actors: Vec<ActorSpec> = (0..len).map(|_| ActorSpec { cap: Some(g.pick(&[1usize, 2, 32])), ..Default::default() }).collect();
    let mut clients: Vec<Vec<Op>> = Vec::new();
    match placement {
        0 => {
            let mut m = chain_msg(g, 0, len, 0, true);
            if g.chance(400) {
                // prelude: before its cycle edge, actor 0 abandons an ask (timeout or cancellation) to an
                // extra, busy actor S whose mailbox keeps the stale request until S gets to it - which
                // happens after the cycle edge exists and before the closing ask (the last participant
                // waits long enough). The cycle must still be detected.
                let s_idx = len as u32;
                actors.push(ActorSpec { cap: Some(g.pick(&[2usize, 4, 32])), ..Default::default() });
                let busy = g.range(10, 30);
                clients.push(vec![Op::Tell { h: s_idx, m: Msg::with(g.mid(), vec![Op::Sleep(busy)]) }]);
                let stale = Msg::work(g.mid());
                let abandoned = if g.chance(600) {
                    Op::AskT { h: 50 + s_idx, m: stale, ms: g.range(1, 5) }
                } else {
                    Op::Cancel { op: Box::new(Op::Ask { h: 50 + s_idx, m: stale }), polls: 1, ms: None }
                };
                m.steps.insert(0, abandoned);
                m.steps.insert(0, Op::Sleep(1));
                // the participant that closes the cycle waits until S has flushed the stale request
                fn last_mut(m: &mut Msg, depth: usize) -> &mut Msg {
                    if depth == 0 {
                        return m;
                    }
                    let pos = m.steps.iter().position(|o| matches!(o, Op::Ask { .. } | Op::AskT { .. })).unwrap();
                    // skip the abandoned ask in the first message
                    let idx = m.steps.iter().rposition(|o| matches!(o, Op::Ask { .. } | Op::AskT { .. })).unwrap_or(pos);
                    match &mut m.steps[idx] {
                        Op::Ask { m, .. } | Op::AskT { m, .. } => last_mut(m, depth - 1),
                        _ => unreachable!(),
                    }
                }
                if len >= 2 {
                    let closer = last_mut(&mut m, len - 1);
                    closer.steps.insert(0, Op::Sleep(busy + 10));
                } else {
                    // self-ask: wait in the same handler
                    let at = m.steps.len() - 1;
                    m.steps.insert(at, Op::Sleep(busy + 10));
                }
            }
            clients.push(vec![Op::Sleep(2), if g.chance(500) { Op::Tell { h: 0, m } } else { Op::Ask { h: 0, m } }]);
        }
        1 | 2 | 3 => {
            // actor 0's ask sits in a lifecycle hook; the rest of the chain runs in handlers
            let first = if len == 1 { Msg::work(g.mid()) } else { chain_msg(g, 1, len, 0, true) };
            let target = if len == 1 { 0 } else { 1 };
            let ask = ask_variant(g, 50 + target, first);
            match placement {
                1 => actors[0].on_start = vec![ask],
                2 => actors[0].on_run = vec![RunScript { steps: vec![ask], out: RunOut::False }],
                _ => {
                    // on_stop reached by a graceful stop or by a kill (different branches of the actor loop)
                    actors[0].on_stop = vec![ask];
                    let end = if g.chance(500) { Op::Stop { h: 0 } } else { Op::Kill { h: 0 } };
                    clients.push(vec![Op::Sleep(g.range(0, 2)), end]);
                }
            }
        }
        4 => {
            for i in 0..len {
                let m = Msg::work(g.mid());
                actors[i].on_start = vec![ask_variant(g, 50 + ((i + 1) % len) as u32, m)];
            }
        }
        7 => {
            // the closing ask sits in actor 0's on_stop, and the edge into actor 0 belongs to a request that actor 0 never
            // handles: it is still queued (or waiting for a slot) when actor 0 leaves its message loop, because a stop
            // request queued ahead of it, or a kill, ends the loop first. The chain 1 -> ... -> 0 is waiting all the
            // same, so on_stop's ask to actor 1 closes a cycle in every schedule.
            let busy = g.range(25, 40);
            clients.push(vec![Op::Tell { h: 0, m: Msg::with(g.mid(), vec![Op::Sleep(busy)]) }]);
            let end = if g.chance(500) { Op::Stop { h: 0 } } else { Op::Kill { h: 0 } };
            clients.push(vec![Op::Sleep(1), end]);
            let chain = chain_msg(g, 1, len, 0, true);
            clients.push(vec![Op::Sleep(3), if g.chance(500) { Op::Tell { h: 1, m: chain } } else { Op::Ask { h: 1, m: chain } }]);
            let ping = Msg::work(g.mid());
            actors[0].on_stop = vec![ask_variant(g, 51, ping)];
        }
        6 => {
            // parked first ask: B fills its own mailbox, so A's ask to B is still waiting for a slot
            // (not yet queued) when B asks A back from its running handler. The cycle A -> B -> A exists
            // all the same. Participants: actor 0 = A, actor 1 = B (len forced to 2).
            let capb = g.pick(&[1usize, 2, 3]);
            actors.truncate(1);
            actors.push(ActorSpec { cap: Some(capb), ..Default::default() });
            let ping = Msg::work(g.mid());
            let a_msg = Msg::with(g.mid(), vec![ask_variant(g, 51, ping)]);
            let mut b_steps = vec![Op::Tell { h: 50, m: a_msg }];
            for _ in 0..capb {
                b_steps.push(Op::Tell { h: 51, m: Msg::work(g.mid()) });
            }
            b_steps.push(Op::Sleep(g.range(2, 6)));
            let pong = Msg::work(g.mid());
            b_steps.push(ask_variant(g, 50, pong));
            clients.push(vec![Op::Tell { h: 1, m: Msg::with(g.mid(), b_steps) }]);
            return Scenario { actors, clients, probes: vec![], peer_slots: true, erase: None, expect: Some(Expect::Cycle(vec![0, 1])) };
        }
        _ => {
            // a barrier makes sure every participant has stopped serving its mailbox before the
            // first ask is issued - only then does the ring close in every schedule
            for i in 0..len {
                let m = Msg::work(g.mid());
                let mut steps = vec![Op::Signal(10 + i as u32)];
                for j in 0..len {
                    if j != i {
                        steps.push(Op::Wait(10 + j as u32));
                    }
                }
                steps.push(ask_variant(g, 50 + ((i + 1) % len) as u32, m));
                actors[i].on_stop = steps;
            }
            let mut c = vec![];
            for i in 0..len {
                c.push(if g.chance(650) { Op::Stop { h: i as u32 } } else { Op::Kill { h: i as u32 } });
            }
            if g.chance(500) {
                clients.push(c);
            } else {
                for o in c {
                    clients.push(vec![o]);
                }
            }
        }
    }
    // bystander traffic that must keep working
    if g.chance(300) {
        clients.push(vec![Op::Sleep(50), Op::IsAlive { h: 0 }]);
    }
    let erase = if g.chance(300) { Some(g.below(1 << 40)) } else { None };
    Scenario { actors, clients, probes: vec![], peer_slots: true, erase, expect: Some(Expect::Cycle((0..len as u32).collect())) }
}

/// C14/C15 racy family: cycles that may or may not form (independent triggers, on_run rings).
pub fn racy_cycles(g: &mut G) -> Scenario {
    let n = g.range(2, 3) as usize;
    let mut actors: Vec<ActorSpec> = (0..n).map(|_| ActorSpec { cap: Some(g.pick(&[1usize, 2, 32])), ..Default::default() }).collect();
    let mut clients: Vec<Vec<Op>> = Vec::new();
    if g.chance(600) {
        // independent triggers: each actor is told to ask a random other one
        for i in 0..n {
            let mut c = vec![];
            if g.chance(500) {
                c.push(Op::Sleep(g.range(0, 3)));
            }
            for _ in 0..g.range(1, 2) {
                let peer = (i + 1 + g.below(n as u64 - 1) as usize) % n;
                let inner = if g.chance(300) { Msg::with(g.mid(), vec![Op::Sleep(g.range(1, 3))]) } else { Msg::work(g.mid()) };
                let ask = ask_variant(g, 50 + peer as u32, inner);
                let mut steps = vec![];
                if g.chance(300) {
                    steps.push(Op::Yield(1));
                }
                steps.push(ask);
                if g.chance(200) {
                    steps.push(Op::Sleep(1));
                }
                c.push(Op::Tell { h: i as u32, m: Msg::with(g.mid(), steps) });
            }
            clients.push(c);
        }
    } else {
        // ring of on_run asks: an arriving message cancels the on_run future and with it the edge
        for i in 0..n {
            let mut scripts = Vec::new();
            let rounds = g.range(1, 3);
            for r in 0..rounds {
                let m = Msg::work(g.mid());
                let mut steps = vec![];
                if g.chance(500) {
                    steps.push(Op::Sleep(g.range(1, 3)));
                }
                steps.push(ask_variant(g, 50 + ((i + 1) % n) as u32, m));
                scripts.push(RunScript { steps, out: if r + 1 == rounds { RunOut::False } else { RunOut::True } });
            }
            actors[i].on_run = scripts;
        }
        clients.push(vec![Op::Sleep(g.range(0, 4)), Op::Tell { h: 0, m: Msg::work(g.mid()) }]);
    }
    Scenario { actors, clients, probes: vec![], peer_slots: true, erase: None, expect: None }
}

/// C15: statically cyclic topology, asks acyclic in time. A asks B; later B asks A, the second ask
/// queued right behind the first request so that the callee proceeds without yielding. The first ask
/// ends in every possible way.
pub fn temporal_acyclic(g: &mut G) -> Scenario {
    let n = g.range(2, 3) as usize;
    let actors: Vec<ActorSpec> = (0..n).map(|_| ActorSpec { cap: Some(g.pick(&[2usize, 4, 32])), ..Default::default() }).collect();
    let mut clients: Vec<Vec<Op>> = Vec::new();
    let a = 0usize;
    let b = 1usize;
    // how A's ask to B ends: 0 reply, 1 timeout, 2 cancelled, 3 callee panics, 4 callee killed, 5 reply after delay,
    // 6 the asker itself unwinds (a sibling branch of a join! panics) while the ask is in flight and the request is queued
    // 7 the ask is an ask_join: it is answered at once (with the JoinHandle), the asker then waits for the job - not for the callee
    let ending = g.below(8);
    // B is kept busy so that A's request and B's own trigger queue up behind each other
    let busy = g.range(5, 30);
    // variant: the busy handler itself asks A back at its end - by then A's ask may have timed out or
    // been cancelled while its request is still sitting in B's mailbox
    let busy_asks_back = (ending == 1 || ending == 2 || ending == 6) && g.chance(500);
    let mut busy_steps = vec![Op::Sleep(busy)];
    if busy_asks_back {
        let m = Msg::work(g.mid());
        busy_steps.push(ask_variant(g, 50 + a as u32, m));
    }
    let mut c0 = vec![Op::Tell { h: b as u32, m: Msg::with(g.mid(), busy_steps) }];
    // A asks B
    let ping_steps = match ending {
        3 => vec![Op::Panic],
        5 => vec![Op::Sleep(g.range(1, 3))],
        1 => vec![Op::Sleep(20)],
        _ => vec![],
    };
    let ping = Msg::with(g.mid(), ping_steps);
    let a_ask = match ending {
        1 => Op::AskT { h: 50 + b as u32, m: ping, ms: g.range(1, 4) },
        2 => Op::Cancel { op: Box::new(Op::Ask { h: 50 + b as u32, m: ping }), polls: 1, ms: None },
        7 => Op::AskJoin { h: 50 + b as u32, m: Msg { id: ping.id, kind: MsgKind::Join { delay_ms: g.pick(&[5u64, 20, 50]), out: g.pick(&[JobOut::Value, JobOut::Value, JobOut::Panic]) }, steps: vec![] } },
        6 => {
            let ask = ask_variant(g, 50 + b as u32, ping);
            if g.chance(500) {
                Op::Join(vec![ask, Op::Panic])
            } else {
                Op::Race(vec![ask, Op::Panic])
            }
        }
        _ => ask_variant(g, 50 + b as u32, ping),
    };
    let mut a_steps = vec![a_ask];
    if g.chance(300) {
        a_steps.push(Op::Yield(1));
    }
    c0.push(Op::Tell { h: a as u32, m: Msg::with(g.mid(), a_steps) });
    clients.push(c0);
    // later: B asks A (queued behind A's request at B)
    let back_target = if n == 3 && g.chance(400) { 2 } else { a };
    let back_msg = if back_target == a {
        Msg::work(g.mid())
    } else {
        let innermost = Msg::work(g.mid());
        let inner_ask = ask_variant(g, 50 + a as u32, innermost);
        Msg::with(g.mid(), vec![inner_ask])
    };
    let mut back_steps = vec![ask_variant(g, 50 + back_target as u32, back_msg)];
    if g.chance(200) {
        back_steps.insert(0, Op::Yield(1));
    }
    let delay = g.range(1, busy.max(2) - 1);
    let mut c1 = vec![Op::Sleep(delay), Op::Tell { h: b as u32, m: Msg::with(g.mid(), back_steps) }];
    if ending == 4 {
        c1.push(Op::Sleep(busy));
        c1.push(Op::Kill { h: b as u32 });
    }
    clients.push(c1);
    // a plain client asking actors must never be tracked
    if g.chance(400) {
        clients.push(vec![Op::Sleep(g.range(0, busy)), Op::Ask { h: a as u32, m: Msg::work(g.mid()) }, Op::Ask { h: b as u32, m: Msg::work(g.mid()) }]);
    }
    Scenario { actors, clients, probes: vec![], peer_slots: true, erase: None, expect: None }
}


// -------------------------------------------------------------------------------------------------
// C20: metrics

pub fn metrics_family(g: &mut G) -> Scenario {
    let cap = g.pick(&[1usize, 4, 32]);
    let mut a = ActorSpec { cap: Some(cap), ..Default::default() };
    if g.chance(300) {
        a.on_run = vec![RunScript { steps: vec![Op::Sleep(2)], out: RunOut::True }, RunScript { steps: vec![Op::Sleep(2)], out: RunOut::False }];
    }
    let mut clients: Vec<Vec<Op>> = Vec::new();
    // writers
    for _ in 0..g.range(1, 3) {
        let mut c = Vec::new();
        for _ in 0..g.range(1, 6) {
            let steps = match g.below(10) {
                0 => vec![Op::Burn(g.range(200, 2000))],
                1 => vec![Op::Sleep(g.range(1, 3))],
                2 => vec![Op::Yield(1)],
                3 if g.chance(300) => vec![Op::Panic],
                _ => vec![],
            };
            let m = Msg::with(g.mid(), steps);
            c.push(if g.chance(650) { Op::Tell { h: 0, m } } else { Op::Ask { h: 0, m } });
            if g.chance(200) {
                c.push(Op::Sleep(g.range(1, 3)));
            }
        }
        clients.push(c);
    }
    // readers: through the shared slot, a clone, and a weak handle upgraded on demand
    for r in 0..g.range(1, 3) as u32 {
        let own = 100 + r * 10;
        let mut c = vec![Op::Clone { h: 0, to: own }, Op::Downgrade { h: own, to: own + 1 }];
        for _ in 0..g.range(2, 6) {
            match g.below(5) {
                0 => c.push(Op::Sleep(g.range(1, 4))),
                1 => c.push(Op::Yield(g.range(1, 3) as u32)),
                2 => {
                    c.push(Op::Upgrade { h: own + 1, to: own + 2 });
                    c.push(Op::Metrics { h: own + 2 });
                    c.push(Op::Drop { h: own + 2 });
                }
                _ => c.push(Op::Metrics { h: if g.chance(500) { 0 } else { own } }),
            }
        }
        // after the end
        c.push(Op::Sleep(300));
        c.push(Op::Metrics { h: own });
        c.push(Op::Upgrade { h: own + 1, to: own + 2 });
        c.push(Op::Metrics { h: own + 2 });
        c.push(Op::Metrics { h: own });
        clients.push(c);
    }
    // termination
    let mut t = vec![Op::Sleep(g.range(5, 40))];
    match g.below(4) {
        0 => t.push(Op::Stop { h: 0 }),
        1 => {
            // kill with a backlog
            for _ in 0..g.range(0, 3) {
                t.push(Op::Tell { h: 0, m: Msg::with(g.mid(), vec![Op::Sleep(2)]) });
            }
            t.push(Op::Kill { h: 0 });
        }
        2 => t.push(Op::Drop { h: 0 }),
        _ => {}
    }
    clients.push(t);
    let probes = vec![vec![Op::Metrics { h: 100 }, Op::Metrics { h: 0 }]];
    Scenario { actors: vec![a], clients, probes, peer_slots: false, erase: None, expect: None }
}

// -------------------------------------------------------------------------------------------------
// C12: one base scenario, one run per crash point

/// A fault-free multi-actor system: pipelines, fan-in, request chains, clients on every actor.
pub fn crash_base(g: &mut G) -> Scenario {
    let mut k = crate::gen::Knobs::base();
    k.actors = (3, 4);
    k.clients = (2, 4);
    k.ops = (2, 5);
    k.caps = vec![Some(1), Some(2), Some(4), Some(32)];
    k.w_clone = 0;
    k.w_drop = 0;
    k.w_weak = 0;
    k.w_erase = 0;
    k.w_cancel = 1;
    k.w_fork = 0;
    k.w_stop = 0;
    k.w_askjoin = 1;
    k.h_steps = 700;
    k.h_tell_peer = 30;
    k.h_ask_peer = 30;
    k.h_stopself = 0;
    k.h_cloneself = 0;
    k.run_scripts = 500;
    k.start_steps = 400;
    k.stop_steps = 400;
    k.end = if g.chance(500) { 1 } else { 2 };
    k.timeouts = vec![1, 5, 50, 3_600_000];
    crate::gen::generic(g, &k)
}

#[derive(Clone, Debug)]
pub enum CrashSite {
    Start,
    Stop,
    Run(usize),
    Msg(u64),
}

#[derive(Clone, Debug)]
pub struct CrashPoint {
    pub victim: usize,
    pub site: CrashSite,
    pub at_end: bool,
    /// None = panic, Some(code) = the hook returns that error
    pub error: Option<i64>,
}

fn msgs_to<'a>(ops: &'a [Op], out: &mut Vec<(usize, u64)>) {
    for o in ops {
        match o {
            Op::Tell { h, m } | Op::TellT { h, m, .. } | Op::Ask { h, m } | Op::AskT { h, m, .. } | Op::AskJoin { h, m } | Op::TellUs { h, m, .. } | Op::AskUs { h, m, .. } => {
                out.push(((*h % 50) as usize, m.id));
                msgs_to(&m.steps, out);
            }
            Op::Cancel { op, .. } | Op::Unpolled(op) | Op::Deferred { op, .. } => msgs_to(std::slice::from_ref(op), out),
            Op::Fork { ops, .. } => msgs_to(ops, out),
            Op::Join(ops) | Op::Race(ops) => msgs_to(ops, out),
            _ => {}
        }
    }
}

pub fn crash_points(sc: &Scenario) -> Vec<CrashPoint> {
    let mut pts = Vec::new();
    let mut msgs = Vec::new();
    for a in &sc.actors {
        msgs_to(&a.on_start, &mut msgs);
        msgs_to(&a.on_stop, &mut msgs);
        for r in &a.on_run {
            msgs_to(&r.steps, &mut msgs);
        }
    }
    for c in &sc.clients {
        msgs_to(c, &mut msgs);
    }
    for v in 0..sc.actors.len() {
        for at_end in [false, true] {
            pts.push(CrashPoint { victim: v, site: CrashSite::Start, at_end, error: None });
            pts.push(CrashPoint { victim: v, site: CrashSite::Stop, at_end, error: None });
        }
        pts.push(CrashPoint { victim: v, site: CrashSite::Start, at_end: true, error: Some(901) });
        pts.push(CrashPoint { victim: v, site: CrashSite::Stop, at_end: true, error: Some(902) });
        // k-th on_run invocation: scripted ones plus the first default one
        for k in 0..sc.actors[v].on_run.len().max(1) {
            pts.push(CrashPoint { victim: v, site: CrashSite::Run(k), at_end: true, error: None });
            pts.push(CrashPoint { victim: v, site: CrashSite::Run(k), at_end: true, error: Some(903) });
        }
        for (t, mid) in &msgs {
            if *t == v {
                pts.push(CrashPoint { victim: v, site: CrashSite::Msg(*mid), at_end: false, error: None });
                pts.push(CrashPoint { victim: v, site: CrashSite::Msg(*mid), at_end: true, error: None });
            }
        }
    }
    pts
}

fn inject_msg(ops: &mut [Op], mid: u64, at_end: bool) {
    for o in ops.iter_mut() {
        match o {
            Op::Tell { m, .. } | Op::TellT { m, .. } | Op::Ask { m, .. } | Op::AskT { m, .. } | Op::AskJoin { m, .. } | Op::TellUs { m, .. } | Op::AskUs { m, .. } | Op::TellSelf { m, .. } => {
                if m.id == mid {
                    if at_end {
                        m.steps.push(Op::Panic);
                    } else {
                        m.steps.insert(0, Op::Panic);
                    }
                } else {
                    inject_msg(&mut m.steps, mid, at_end);
                }
            }
            Op::Cancel { op, .. } | Op::Unpolled(op) | Op::Deferred { op, .. } => inject_msg(std::slice::from_mut(&mut **op), mid, at_end),
            Op::Fork { ops, .. } => inject_msg(ops, mid, at_end),
            Op::Join(ops) | Op::Race(ops) => inject_msg(ops, mid, at_end),
            _ => {}
        }
    }
}

pub fn inject(sc: &Scenario, p: &CrashPoint) -> Scenario {
    let mut s = sc.clone();
    let fault = match p.error {
        None => Op::Panic,
        Some(c) => Op::Fail(c),
    };
    match &p.site {
        CrashSite::Start => {
            if p.at_end {
                s.actors[p.victim].on_start.push(fault)
            } else {
                s.actors[p.victim].on_start.insert(0, fault)
            }
        }
        CrashSite::Stop => {
            if p.at_end {
                s.actors[p.victim].on_stop.push(fault)
            } else {
                s.actors[p.victim].on_stop.insert(0, fault)
            }
        }
        CrashSite::Run(k) => {
            let a = &mut s.actors[p.victim];
            while a.on_run.len() <= *k {
                a.on_run.push(RunScript { steps: vec![Op::Sleep(1)], out: RunOut::True });
            }
            match p.error {
                None => a.on_run[*k].steps.push(Op::Panic),
                Some(c) => a.on_run[*k].out = RunOut::Err(c),
            }
            a.on_run.truncate(*k + 1);
        }
        CrashSite::Msg(mid) => {
            for a in s.actors.iter_mut() {
                inject_msg(&mut a.on_start, *mid, p.at_end);
                inject_msg(&mut a.on_stop, *mid, p.at_end);
                for r in a.on_run.iter_mut() {
                    inject_msg(&mut r.steps, *mid, p.at_end);
                }
            }
            for c in s.clients.iter_mut() {
                inject_msg(c, *mid, p.at_end);
            }
        }
    }
    // follow-up traffic between the survivors, after the crash
    let n = s.actors.len();
    let mut follow = vec![Op::Sleep(200)];
    for a in 0..n as u32 {
        follow.push(Op::IsAlive { h: 50 + a });
    }
    s.clients.push(follow);
    s
}

pub const CRASH_POINTS_PER_BASE: u64 = 64;

/// index -> (base scenario, crash point): all indices of one block share the base
pub fn crash_point_scenario(base_seed: u64, index: u64) -> (Scenario, usize, usize) {
    let mut g = G::new(base_seed);
    let base = crash_base(&mut g);
    let pts = crash_points(&base);
    let p = (index % CRASH_POINTS_PER_BASE) as usize;
    if pts.is_empty() {
        return (base, 0, 0);
    }
    let chosen = &pts[p % pts.len()];
    (inject(&base, chosen), p % pts.len(), pts.len())
}


/// C12: a genuine ask cycle is detected (one participant panics); afterwards the survivors keep
/// asking each other and the dead victim from inside handlers. Global state must be intact.
pub fn cycle_then_followup(g: &mut G) -> Scenario {
    let len = g.range(2, 3) as usize;
    let extra = g.range(0, 1) as usize; // bystanders
    let n = len + extra;
    let actors: Vec<ActorSpec> = (0..n).map(|_| ActorSpec { cap: Some(g.pick(&[2usize, 4, 32])), ..Default::default() }).collect();
    let mut clients: Vec<Vec<Op>> = Vec::new();
    let m = chain_msg(g, 0, len, 0, false);
    clients.push(vec![Op::Tell { h: 0, m }]);
    // follow-up rounds, separated in time
    let mut c = vec![Op::Sleep(50)];
    for _ in 0..g.range(2, 5) {
        let from = g.below(n as u64) as u32;
        let to = g.below(n as u64) as u32;
        if from == to {
            continue;
        }
        let inner = Msg::work(g.mid());
        let ask = if g.chance(500) { Op::Ask { h: 50 + to, m: inner } } else { Op::AskT { h: 50 + to, m: inner, ms: 50 } };
        c.push(Op::Tell { h: 50 + from, m: Msg::with(g.mid(), vec![ask]) });
        c.push(Op::Sleep(g.range(5, 20)));
    }
    clients.push(c);
    Scenario { actors, clients, probes: vec![], peer_slots: true, erase: None, expect: None }
}


/// C20 / C18: a handler that demonstrably runs for more than one second of *real* time (rare: costs
/// a second per run). Durations with a whole-second part exercise paths that short handlers never reach.
pub fn long_handler(g: &mut G, with_metrics_reads: bool) -> Scenario {
    let a = ActorSpec { cap: Some(4), ..Default::default() };
    let mut c = vec![Op::Ask { h: 0, m: Msg::with(g.mid(), vec![Op::Burn(30_000)]) }, Op::Ask { h: 0, m: Msg::with(g.mid(), vec![Op::Burn(1_050_000)]) }];
    if with_metrics_reads {
        c.push(Op::Metrics { h: 0 });
    }
    c.push(Op::Ask { h: 0, m: Msg::work(g.mid()) });
    c.push(Op::Tell { h: 0, m: Msg::work(g.mid()) });
    if with_metrics_reads {
        c.push(Op::Clone { h: 0, to: 100 });
        c.push(Op::Downgrade { h: 0, to: 101 });
    }
    c.push(Op::Stop { h: 0 });
    if with_metrics_reads {
        c.push(Op::Sleep(50));
        c.push(Op::Metrics { h: 100 });
        c.push(Op::Upgrade { h: 101, to: 102 });
        c.push(Op::Metrics { h: 102 });
    }
    Scenario { actors: vec![a], clients: vec![c], probes: vec![], peer_slots: false, erase: None, expect: None }
}
