//! Execution of scripted operations (clients and hooks share one interpreter).
use crate::actor::{JoinWork, Reply, SimActor, Work, WorkR};
use crate::model::*;
use crate::world::{self, log, EvKind, HKind, Handle, OpTag, Res, Who};
use rsactor::{ActorControl, ActorRef, ActorWeak, AskHandler, TellHandler, WeakActorControl, WeakAskHandler, WeakTellHandler};
use std::future::Future;
use std::sync::Arc;
use std::pin::Pin;
use std::task::{Context, Poll};
use std::time::Duration;

pub enum Flow {
    Continue,
    Fail(i64),
}

#[derive(Clone, Copy)]
pub enum SelfRef<'a> {
    None,
    Strong(&'a ActorRef<SimActor>),
    Weak(&'a ActorWeak<SimActor>),
}

pub type BoxFut<'a, T> = Pin<Box<dyn Future<Output = T> + Send + 'a>>;

/// A library future together with the handle it borrows from. The library call that creates the future
/// is made *eagerly* (when the operation is created, not when it is first polled), so that anything an
/// implementation does at call time - rather than at first poll - is part of the observed behaviour.
struct Held<K, T> {
    fut: BoxFut<'static, T>, // declared first: dropped before what it borrows from
    _keep: Box<K>,
}
impl<K, T> Future for Held<K, T> {
    type Output = T;
    fn poll(mut self: Pin<&mut Self>, cx: &mut Context<'_>) -> Poll<T> {
        self.fut.as_mut().poll(cx)
    }
}
impl<K, T> Unpin for Held<K, T> {}
fn held<K: Send + 'static, T: 'static>(keep: K, make: impl for<'x> FnOnce(&'x K) -> BoxFut<'x, T>) -> BoxFut<'static, T> {
    let keep = Box::new(keep);
    let fut = make(&keep);
    // SAFETY: the future only borrows from `*keep`, which lives in a Box (stable address) owned by the same
    // struct and dropped after the future (field order)
    let fut: BoxFut<'static, T> = unsafe { std::mem::transmute::<BoxFut<'_, T>, BoxFut<'static, T>>(fut) };
    Box::pin(Held { fut, _keep: keep })
}

pub async fn exec_script(who: Who, ops: &[Op], me: SelfRef<'_>) -> Flow {
    for (k, op) in ops.iter().enumerate() {
        match exec(who, k as u32, op, me).await {
            Flow::Continue => {}
            f @ Flow::Fail(_) => return f,
        }
    }
    Flow::Continue
}

fn dur(us: u64) -> Duration {
    if us == FOREVER {
        Duration::MAX
    } else {
        Duration::from_micros(us)
    }
}

fn ms_to_us(ms: u64) -> u64 {
    if ms == FOREVER {
        FOREVER
    } else {
        ms.saturating_mul(1000)
    }
}

pub fn map_err(e: &rsactor::Error) -> Res {
    let r = e.is_retryable();
    match e {
        rsactor::Error::Timeout { .. } => Res::ErrTimeout { retryable: r },
        _ if r => Res::ErrOther(format!("non-timeout error claims retryable: {e}")),
        rsactor::Error::Send { .. } => Res::ErrSend,
        rsactor::Error::Receive { .. } => Res::ErrRecv,
        rsactor::Error::Downcast { .. } => Res::ErrDowncast,
        rsactor::Error::Join { source, .. } => {
            if source.is_panic() {
                Res::ErrJoinPanic
            } else {
                Res::ErrJoinCancelled
            }
        }
        other => Res::ErrOther(world::normalise_ids(&format!("{other}"))),
    }
}

/// Tracks one in-flight operation: counts polls, attributes tracing events emitted during its
/// polls to it, and logs `Cancelled` if it is dropped before it returned.
struct Tracked<'a, T> {
    fut: BoxFut<'a, T>,
    who: Who,
    k: u32,
    polls: u32,
    done: bool,
    /// the invocation record, logged when the operation is polled for the first time: futures are lazy, so
    /// that - not the creation of the future - is when the operation starts for every rule about
    /// acceptance, ordering and deadlines. (`budget` is filled in at that moment.)
    inv: Option<EvKind>,
}

impl<T> Future for Tracked<'_, T> {
    type Output = (T, u32);
    fn poll(mut self: Pin<&mut Self>, cx: &mut Context<'_>) -> Poll<(T, u32)> {
        let this = &mut *self;
        this.polls += 1;
        if let Some(mut inv) = this.inv.take() {
            if let EvKind::Inv { budget, .. } = &mut inv {
                *budget = budget_ok();
            }
            log(inv);
        }
        let prev = world::with(|w| w.cur_op.replace((this.who, this.k)));
        let r = this.fut.as_mut().poll(cx);
        world::try_with(|w| w.cur_op = prev);
        match r {
            Poll::Ready(v) => {
                this.done = true;
                Poll::Ready((v, this.polls))
            }
            Poll::Pending => Poll::Pending,
        }
    }
}

impl<T> Drop for Tracked<'_, T> {
    fn drop(&mut self) {
        if !self.done {
            let (who, k, polls) = (self.who, self.k, self.polls);
            log(EvKind::Cancelled { who, k, polls });
        }
    }
}

fn slot(h: u32) -> Option<(Arc<Handle>, u32)> {
    world::with(|w| w.slots.get(&h).map(|(hd, a)| (hd.clone(), *a)))
}

/// the typed reference inside a shared handle (the caller has matched the variant already)
fn strong(hd: &Handle) -> &ActorRef<SimActor> {
    match hd {
        Handle::Strong(r) => r,
        _ => unreachable!("not a typed strong handle"),
    }
}
fn tellh(hd: &Handle) -> &dyn TellHandler<Work> {
    match hd {
        Handle::Tell(b) => &**b,
        _ => unreachable!("not a tell handler"),
    }
}
fn askh(hd: &Handle) -> &dyn AskHandler<Work, Reply> {
    match hd {
        Handle::Ask(b) => &**b,
        _ => unreachable!("not an ask handler"),
    }
}
fn ctlh(hd: &Handle) -> &dyn ActorControl {
    match hd {
        Handle::Ctl(b) => &**b,
        Handle::Tell(b) => b.as_control(),
        Handle::Ask(b) => b.as_control(),
        _ => unreachable!("not a control handle"),
    }
}

fn erase_choice(who: Who, k: u32, n: u64) -> Option<u64> {
    world::with(|w| w.erase).map(|seed| {
        // a pure function of (erase seed, operation identity): the same in record and replay
        let mut x = seed ^ 0xA5A5_5A5A_1234_5678;
        let tag: u64 = match who {
            Who::Client(c) => 1 << 32 | c as u64,
            Who::Probe(c) => 2 << 32 | c as u64,
            Who::Start(a) => 3 << 32 | a as u64,
            Who::Handler(a, m) => (4 << 32 | a as u64) ^ m.rotate_left(17),
            Who::Run(a, n) => 5 << 32 | (a as u64) << 16 | n as u64,
            Who::Stop(a) => 6 << 32 | a as u64,
            Who::Fork(a, b) => 7 << 32 | (a as u64) << 16 | b as u64,
        };
        x ^= tag.wrapping_mul(0x9E37_79B9_7F4A_7C15) ^ (k as u64).wrapping_mul(0xD6E8_FEB8_6659_FD93);
        x ^= x >> 31;
        x = x.wrapping_mul(0xBF58_476D_1CE4_E5B9);
        x ^= x >> 29;
        x % n
    })
}

/// Build an erased tell handler from a strong reference by one of the conversion paths.
fn erased_tell(r: ActorRef<SimActor>, choice: u64) -> (Box<dyn TellHandler<Work>>, &'static str) {
    match choice {
        0 => (r.into(), "tellh:from-move"),
        1 => ((&r).into(), "tellh:from-ref"),
        2 => (TellHandler::<Work>::clone_boxed(&r), "tellh:clone_boxed"),
        3 => {
            let b: Box<dyn TellHandler<Work>> = r.into();
            (b.clone(), "tellh:box-clone")
        }
        4 => {
            let w = TellHandler::<Work>::downgrade(&r);
            match w.upgrade() {
                Some(b) => (b, "tellh:downgrade-upgrade"),
                None => (r.into(), "tellh:from-move(upgrade-none)"),
            }
        }
        5 => {
            let w: Box<dyn WeakTellHandler<Work>> = ActorRef::downgrade(&r).into();
            let w2 = w.clone_boxed();
            match w2.upgrade() {
                Some(b) => (b, "tellh:weak-from-clone-upgrade"),
                None => (r.into(), "tellh:from-move(upgrade-none)"),
            }
        }
        _ => {
            let w: Box<dyn WeakTellHandler<Work>> = (&ActorRef::downgrade(&r)).into();
            match w.upgrade() {
                Some(b) => (b, "tellh:weak-from-ref-upgrade"),
                None => (r.into(), "tellh:from-move(upgrade-none)"),
            }
        }
    }
}

fn erased_ask(r: ActorRef<SimActor>, choice: u64) -> (Box<dyn AskHandler<Work, Reply>>, &'static str) {
    match choice {
        0 => (r.into(), "askh:from-move"),
        1 => ((&r).into(), "askh:from-ref"),
        2 => (AskHandler::<Work, Reply>::clone_boxed(&r), "askh:clone_boxed"),
        3 => {
            let b: Box<dyn AskHandler<Work, Reply>> = r.into();
            (b.clone(), "askh:box-clone")
        }
        4 => {
            let w = AskHandler::<Work, Reply>::downgrade(&r);
            match w.upgrade() {
                Some(b) => (b, "askh:downgrade-upgrade"),
                None => (r.into(), "askh:from-move(upgrade-none)"),
            }
        }
        5 => {
            let w: Box<dyn WeakAskHandler<Work, Reply>> = ActorRef::downgrade(&r).into();
            let w2 = w.clone_boxed();
            match w2.upgrade() {
                Some(b) => (b, "askh:weak-from-clone-upgrade"),
                None => (r.into(), "askh:from-move(upgrade-none)"),
            }
        }
        _ => {
            let w: Box<dyn WeakAskHandler<Work, Reply>> = (&ActorRef::downgrade(&r)).into();
            match w.upgrade() {
                Some(b) => (b, "askh:weak-from-ref-upgrade"),
                None => (r.into(), "askh:from-move(upgrade-none)"),
            }
        }
    }
}

fn erased_ctl(r: ActorRef<SimActor>, choice: u64) -> (Box<dyn ActorControl>, &'static str) {
    match choice {
        0 => (r.into(), "ctl:from-move"),
        1 => ((&r).into(), "ctl:from-ref"),
        2 => (ActorControl::clone_boxed(&r), "ctl:clone_boxed"),
        3 => {
            let b: Box<dyn TellHandler<Work>> = r.into();
            (b.as_control().clone_boxed(), "ctl:tellh.as_control")
        }
        4 => {
            let b: Box<dyn AskHandler<Work, Reply>> = r.into();
            (b.as_control().clone_boxed(), "ctl:askh.as_control")
        }
        5 => {
            let w = ActorControl::downgrade(&r);
            match w.upgrade() {
                Some(b) => (b, "ctl:downgrade-upgrade"),
                None => (r.into(), "ctl:from-move(upgrade-none)"),
            }
        }
        _ => {
            let w: Box<dyn WeakActorControl> = ActorRef::downgrade(&r).into();
            match w.clone_boxed().upgrade() {
                Some(b) => (b, "ctl:weak-from-upgrade"),
                None => (r.into(), "ctl:from-move(upgrade-none)"),
            }
        }
    }
}

fn reply_res(r: rsactor::Result<Reply>) -> Res {
    match r {
        Ok(rp) => Res::Reply { mid: rp.mid, nonce: rp.nonce, idx: rp.idx },
        Err(e) => map_err(&e),
    }
}

fn unit_res(r: rsactor::Result<()>) -> Res {
    match r {
        Ok(()) => Res::Ok,
        Err(e) => map_err(&e),
    }
}

/// The async part of a send-family operation, already bound to its handle.
fn send_future(who: Who, k: u32, tag: OpTag, hd: Arc<Handle>, m: &Msg, us: Option<u64>) -> Option<(BoxFut<'static, Res>, String)> {
    let msg = m.clone();
    let erase = |n: u64| erase_choice(who, k, n);
    let is_work = matches!(msg.kind, MsgKind::Work);
    match (tag, &*hd) {
        // ------------------------------------------------------------------ tell family
        (OpTag::Tell | OpTag::TellT, Handle::Strong(r)) => {
            if is_work {
                if let Some(c) = erase(7) {
                    let (b, via) = erased_tell(r.clone(), c);
                    return Some((tell_boxed(b, msg, us), via.to_string()));
                }
            }
            let f = held(hd.clone(), move |hd| {
                let r = strong(hd);
                match (msg.kind.clone(), us) {
                    (MsgKind::Work, None) => map_unit(Box::pin(r.tell(Work(msg)))),
                    (MsgKind::Work, Some(t)) => map_unit(Box::pin(r.tell_with_timeout(Work(msg), dur(t)))),
                    (MsgKind::WorkR { .. }, None) => map_unit(Box::pin(r.tell(WorkR(msg)))),
                    (MsgKind::WorkR { .. }, Some(t)) => map_unit(Box::pin(r.tell_with_timeout(WorkR(msg), dur(t)))),
                    (MsgKind::Join { .. }, None) => map_unit(Box::pin(r.tell(JoinWork(msg)))),
                    (MsgKind::Join { .. }, Some(t)) => map_unit(Box::pin(r.tell_with_timeout(JoinWork(msg), dur(t)))),
                }
            });
            Some((f, "ref".into()))
        }
        (OpTag::Tell | OpTag::TellT, Handle::Tell(_)) if is_work => {
            let f = held(hd.clone(), move |hd| {
                let b = tellh(hd);
                match us {
                    None => map_unit(b.tell(Work(msg))),
                    Some(t) => map_unit(b.tell_with_timeout(Work(msg), dur(t))),
                }
            });
            Some((f, "slot:tellh".into()))
        }
        // ------------------------------------------------------------------ ask family
        (OpTag::Ask | OpTag::AskT, Handle::Strong(r)) => {
            if is_work {
                if let Some(c) = erase(7) {
                    let (b, via) = erased_ask(r.clone(), c);
                    return Some((ask_boxed(b, msg, us), via.to_string()));
                }
            }
            if matches!(msg.kind, MsgKind::Join { .. }) {
                return Some((Box::pin(async { Res::Unsupported }), "ref".into()));
            }
            let f = held(hd.clone(), move |hd| {
                let r = strong(hd);
                match (msg.kind.clone(), us) {
                    (MsgKind::Work, None) => map_reply(Box::pin(r.ask(Work(msg)))),
                    (MsgKind::Work, Some(t)) => map_reply(Box::pin(r.ask_with_timeout(Work(msg), dur(t)))),
                    (MsgKind::WorkR { .. }, None) => map_reply_r(Box::pin(r.ask(WorkR(msg)))),
                    (MsgKind::WorkR { .. }, Some(t)) => map_reply_r(Box::pin(r.ask_with_timeout(WorkR(msg), dur(t)))),
                    (MsgKind::Join { .. }, _) => unreachable!(),
                }
            });
            Some((f, "ref".into()))
        }
        (OpTag::Ask | OpTag::AskT, Handle::Ask(_)) if is_work => {
            let f = held(hd.clone(), move |hd| {
                let b = askh(hd);
                match us {
                    None => map_reply(b.ask(Work(msg))),
                    Some(t) => map_reply(b.ask_with_timeout(Work(msg), dur(t))),
                }
            });
            Some((f, "slot:askh".into()))
        }
        (OpTag::AskJoin, Handle::Strong(_)) => {
            let f = held(hd.clone(), move |hd| {
                let lib = Box::pin(strong(hd).ask_join(JoinWork(msg)));
                Box::pin(async move {
                    match lib.await {
                        Ok(v) => Res::JoinVal(v),
                        Err(e) => map_err(&e),
                    }
                })
            });
            Some((f, "ref".into()))
        }
        // ------------------------------------------------------------------ stop
        (OpTag::Stop, Handle::Strong(r)) => {
            if let Some(c) = erase(7) {
                let (b, via) = erased_ctl(r.clone(), c);
                let f = held(b, |b| map_unit(b.stop()));
                return Some((f, via.to_string()));
            }
            let f = held(hd.clone(), |hd| map_unit(Box::pin(strong(hd).stop())));
            Some((f, "ref".into()))
        }
        (OpTag::Stop, Handle::Ctl(_)) => Some((held(hd.clone(), |hd| map_unit(ctlh(hd).stop())), "slot:ctl".into())),
        (OpTag::Stop, Handle::Tell(_)) => Some((held(hd.clone(), |hd| map_unit(ctlh(hd).stop())), "slot:tellh.as_control".into())),
        (OpTag::Stop, Handle::Ask(_)) => Some((held(hd.clone(), |hd| map_unit(ctlh(hd).stop())), "slot:askh.as_control".into())),
        _ => None,
    }
}

fn map_unit<'x>(lib: BoxFut<'x, rsactor::Result<()>>) -> BoxFut<'x, Res> {
    Box::pin(async move { unit_res(lib.await) })
}
fn map_reply<'x>(lib: BoxFut<'x, rsactor::Result<Reply>>) -> BoxFut<'x, Res> {
    Box::pin(async move { reply_res(lib.await) })
}
fn map_reply_r<'x>(lib: BoxFut<'x, rsactor::Result<Result<Reply, crate::actor::ReplyErr>>>) -> BoxFut<'x, Res> {
    Box::pin(async move {
        match lib.await {
            Ok(Ok(rp)) => reply_res(Ok(rp)),
            Ok(Err(e)) => reply_res(Ok(e.0)),
            Err(e) => map_err(&e),
        }
    })
}

fn tell_boxed(b: Box<dyn TellHandler<Work>>, msg: Msg, us: Option<u64>) -> BoxFut<'static, Res> {
    held(b, move |b| match us {
        None => map_unit(b.tell(Work(msg))),
        Some(t) => map_unit(b.tell_with_timeout(Work(msg), dur(t))),
    })
}

fn ask_boxed(b: Box<dyn AskHandler<Work, Reply>>, msg: Msg, us: Option<u64>) -> BoxFut<'static, Res> {
    held(b, move |b| match us {
        None => map_reply(b.ask(Work(msg))),
        Some(t) => map_reply(b.ask_with_timeout(Work(msg), dur(t))),
    })
}

fn budget_ok() -> bool {
    tokio::task::coop::has_budget_remaining()
}

/// Eager half of a send-family operation: logs the invocation and makes the library call that creates
/// the future (without polling it). Returns None when there is nothing to await.
fn prepare_send(who: Who, k: u32, tag: OpTag, h: u32, m: Option<&Msg>, us: Option<u64>) -> Option<Tracked<'static, Res>> {
    let dummy = Msg::work(0);
    let (hd, a) = match slot(h) {
        Some(x) => x,
        None => {
            log(EvKind::Inv { who, k, op: tag, a: None, mid: m.map(|m| m.id), us, via: "none".into(), budget: budget_ok() });
            log(EvKind::Ret { who, k, res: Res::NoHandle, polls: 0 });
            return None;
        }
    };
    let kind = hd.kind();
    // the invocation is logged before the library is entered
    let via = planned_via(who, k, tag, &hd, m.unwrap_or(&dummy));
    match via {
        None => {
            log(EvKind::Inv { who, k, op: tag, a: Some(a), mid: m.map(|m| m.id), us, via: kind.into(), budget: budget_ok() });
            log(EvKind::Ret { who, k, res: Res::Unsupported, polls: 0 });
            None
        }
        Some(_) => {
            log(EvKind::Created { who, k, op: tag, a, mid: m.map(|m| m.id) });
            let (fut, via) = send_future(who, k, tag, hd, m.unwrap_or(&dummy), us).expect("planned_via and send_future disagree");
            let inv = EvKind::Inv { who, k, op: tag, a: Some(a), mid: m.map(|m| m.id), us, via, budget: true };
            Some(Tracked { fut, who, k, polls: 0, done: false, inv: Some(inv) })
        }
    }
}

/// can this (operation, handle, message) combination be performed at all?
fn planned_via(_who: Who, _k: u32, tag: OpTag, hd: &Handle, m: &Msg) -> Option<()> {
    let is_work = matches!(m.kind, MsgKind::Work);
    match (tag, hd) {
        (OpTag::Tell | OpTag::TellT, Handle::Strong(_)) => Some(()),
        (OpTag::Tell | OpTag::TellT, Handle::Tell(_)) if is_work => Some(()),
        (OpTag::Ask | OpTag::AskT, Handle::Strong(_)) => Some(()),
        (OpTag::Ask | OpTag::AskT, Handle::Ask(_)) if is_work => Some(()),
        (OpTag::AskJoin, Handle::Strong(_)) => Some(()),
        (OpTag::Stop, Handle::Strong(_) | Handle::Ctl(_) | Handle::Tell(_) | Handle::Ask(_)) => Some(()),
        _ => None,
    }
}

async fn finish_send(who: Who, k: u32, tag: OpTag, prepared: Option<Tracked<'static, Res>>) {
    if let Some(tracked) = prepared {
        let (res, polls) = tracked.await;
        if matches!(res, Res::ErrTimeout { .. }) {
            world::with(|w| w.probes.timeouts_fired += 1);
        }
        if polls > 1 && tag.is_tell() {
            world::with(|w| w.probes.full_mailbox_waits += 1);
        }
        log(EvKind::Ret { who, k, res, polls });
    }
}

fn kill_handle(who: Who, k: u32, h: u32) {
    let (hd, a) = match slot(h) {
        Some(x) => x,
        None => {
            log(EvKind::Inv { who, k, op: OpTag::Kill, a: None, mid: None, us: None, via: "none".into(), budget: true });
            log(EvKind::Ret { who, k, res: Res::NoHandle, polls: 0 });
            return;
        }
    };
    let (r, via): (Option<rsactor::Result<()>>, String) = match &*hd {
        Handle::Strong(r) => match erase_choice(who, k, 7) {
            Some(c) => {
                let (b, via) = erased_ctl(r.clone(), c);
                log(EvKind::Inv { who, k, op: OpTag::Kill, a: Some(a), mid: None, us: None, via: via.into(), budget: true });
                (Some(b.kill()), String::new())
            }
            None => {
                log(EvKind::Inv { who, k, op: OpTag::Kill, a: Some(a), mid: None, us: None, via: "ref".into(), budget: true });
                (Some(r.kill()), String::new())
            }
        },
        Handle::Ctl(b) => {
            log(EvKind::Inv { who, k, op: OpTag::Kill, a: Some(a), mid: None, us: None, via: "slot:ctl".into(), budget: true });
            (Some(b.kill()), String::new())
        }
        Handle::Tell(b) => {
            log(EvKind::Inv { who, k, op: OpTag::Kill, a: Some(a), mid: None, us: None, via: "slot:tellh.as_control".into(), budget: true });
            (Some(b.as_control().kill()), String::new())
        }
        Handle::Ask(b) => {
            log(EvKind::Inv { who, k, op: OpTag::Kill, a: Some(a), mid: None, us: None, via: "slot:askh.as_control".into(), budget: true });
            (Some(b.as_control().kill()), String::new())
        }
        other => {
            log(EvKind::Inv { who, k, op: OpTag::Kill, a: Some(a), mid: None, us: None, via: other.kind().into(), budget: true });
            (None, String::new())
        }
    };
    let _ = via;
    let res = match r {
        Some(r) => unit_res(r),
        None => Res::Unsupported,
    };
    log(EvKind::Ret { who, k, res, polls: 1 });
}

fn observe(who: Who, k: u32, tag: OpTag, h: u32) {
    let (hd, a) = match slot(h) {
        Some(x) => x,
        None => {
            log(EvKind::Inv { who, k, op: tag, a: None, mid: None, us: None, via: "none".into(), budget: true });
            log(EvKind::Ret { who, k, res: Res::NoHandle, polls: 0 });
            return;
        }
    };
    let via = hd.kind().to_string();
    log(EvKind::Inv { who, k, op: tag, a: Some(a), mid: None, us: None, via, budget: true });
    let ident = |id: rsactor::Identity| {
        let a = world::actor_of_raw(id.id);
        Res::Ident { a, raw: if a.is_some() { 0 } else { id.id }, name: id.name().to_string() }
    };
    let res = match (tag, &*hd) {
        (OpTag::IsAlive, Handle::Strong(r)) => Res::Bool(r.is_alive()),
        (OpTag::IsAlive, Handle::Weak(w)) => Res::Bool(w.is_alive()),
        (OpTag::IsAlive, Handle::Tell(b)) => Res::Bool(b.as_control().is_alive()),
        (OpTag::IsAlive, Handle::Ask(b)) => Res::Bool(b.as_control().is_alive()),
        (OpTag::IsAlive, Handle::Ctl(b)) => Res::Bool(b.is_alive()),
        (OpTag::IsAlive, Handle::WTell(b)) => Res::Bool(b.as_weak_control().is_alive()),
        (OpTag::IsAlive, Handle::WAsk(b)) => Res::Bool(b.as_weak_control().is_alive()),
        (OpTag::IsAlive, Handle::WCtl(b)) => Res::Bool(b.is_alive()),
        (OpTag::Identity, Handle::Strong(r)) => ident(r.identity()),
        (OpTag::Identity, Handle::Weak(w)) => ident(w.identity()),
        (OpTag::Identity, Handle::Tell(b)) => ident(b.as_control().identity()),
        (OpTag::Identity, Handle::Ask(b)) => ident(b.as_control().identity()),
        (OpTag::Identity, Handle::Ctl(b)) => ident(b.identity()),
        (OpTag::Identity, Handle::WTell(b)) => ident(b.as_weak_control().identity()),
        (OpTag::Identity, Handle::WAsk(b)) => ident(b.as_weak_control().identity()),
        (OpTag::Identity, Handle::WCtl(b)) => ident(b.identity()),
        #[cfg(feature = "f_metrics")]
        (OpTag::Metrics, Handle::Strong(r)) => {
            // individual accessors first, then the snapshot, inside one poll: nothing can change in between
            let count = r.message_count();
            let avg = r.avg_processing_time();
            let max = r.max_processing_time();
            let s = r.metrics();
            Res::Metrics {
                count,
                avg_ns: avg.as_nanos() as u64,
                max_ns: max.as_nanos() as u64,
                snap_count: s.message_count,
                snap_avg_ns: s.avg_processing_time.as_nanos() as u64,
                snap_max_ns: s.max_processing_time.as_nanos() as u64,
            }
        }
        _ => Res::Unsupported,
    };
    log(EvKind::Ret { who, k, res, polls: 1 });
}

fn handle_op(who: Who, k: u32, op: &Op, me: SelfRef<'_>) {
    let moved_src = matches!(op, Op::Erase { by_ref: false, .. });
    let ev = |opk: HKind, h: u32, to: Option<u32>, a: Option<u32>, ok: bool, strong: bool| log(EvKind::Handle { who, k, op: opk, h, to, a, ok, strong, moved: moved_src && ok });
    match op {
        Op::Clone { h, to } => match slot(*h) {
            Some((hd, a)) => {
                let strong = hd.is_strong();
                let dup = Arc::new(hd.duplicate());
                let old = world::with(|w| w.slots.insert(*to, (dup, a)));
                ev(HKind::Clone, *h, Some(*to), Some(a), true, strong);
                drop(old);
            }
            None => ev(HKind::Clone, *h, Some(*to), None, false, false),
        },
        Op::Drop { h } => {
            let old = world::with(|w| w.slots.remove(h));
            match old {
                Some((hd, a)) => {
                    let strong = hd.is_strong();
                    // log first: the drop itself may wake the actor, never run it
                    ev(HKind::Drop, *h, None, Some(a), true, strong);
                    drop(hd);
                }
                None => ev(HKind::Drop, *h, None, None, false, false),
            }
        }
        Op::Downgrade { h, to } => match slot(*h) {
            Some((hd, a)) => {
                let choice = erase_choice(who, k, 2).unwrap_or(0);
                let new = match &*hd {
                    Handle::Strong(r) => Some(Handle::Weak(ActorRef::downgrade(r))),
                    Handle::Tell(b) => Some(Handle::WTell(b.downgrade())),
                    Handle::Ask(b) => Some(Handle::WAsk(b.downgrade())),
                    Handle::Ctl(b) => Some(Handle::WCtl(b.downgrade())),
                    _ => None,
                };
                let _ = choice;
                match new {
                    Some(n) => {
                        let old = world::with(|w| w.slots.insert(*to, (Arc::new(n), a)));
                        ev(HKind::Downgrade, *h, Some(*to), Some(a), true, false);
                        drop(old);
                    }
                    None => ev(HKind::Downgrade, *h, Some(*to), Some(a), false, false),
                }
            }
            None => ev(HKind::Downgrade, *h, Some(*to), None, false, false),
        },
        Op::Upgrade { h, to } => match slot(*h) {
            Some((hd, a)) => {
                let new = match &*hd {
                    Handle::Weak(w) => w.upgrade().map(Handle::Strong),
                    Handle::WTell(b) => b.upgrade().map(Handle::Tell),
                    Handle::WAsk(b) => b.upgrade().map(Handle::Ask),
                    Handle::WCtl(b) => b.upgrade().map(Handle::Ctl),
                    _ => None,
                };
                match new {
                    Some(n) => {
                        let old = world::with(|w| w.slots.insert(*to, (Arc::new(n), a)));
                        ev(HKind::Upgrade, *h, Some(*to), Some(a), true, true);
                        drop(old);
                    }
                    None => ev(HKind::Upgrade, *h, Some(*to), Some(a), false, false),
                }
            }
            None => ev(HKind::Upgrade, *h, Some(*to), None, false, false),
        },
        Op::Erase { h, to, kind, by_ref } => {
            let taken = if *by_ref { slot(*h) } else { world::with(|w| w.slots.remove(h)) };
            match taken {
                Some((arc, a)) => {
                    // by reference: convert from a borrowed handle (From<&_>, i.e. a clone); by value: take the
                    // handle out of its slot (when an operation in flight still shares it, a clone is moved instead)
                    let owned: Handle = if *by_ref { arc.duplicate() } else { Arc::try_unwrap(arc).unwrap_or_else(|shared| shared.duplicate()) };
                    let new = match (owned, kind) {
                        (Handle::Strong(r), EraseKind::Tell) => Some(Handle::Tell(if *by_ref { (&r).into() } else { r.into() })),
                        (Handle::Strong(r), EraseKind::Ask) => Some(Handle::Ask(if *by_ref { (&r).into() } else { r.into() })),
                        (Handle::Strong(r), EraseKind::Ctl) => Some(Handle::Ctl(if *by_ref { (&r).into() } else { r.into() })),
                        (Handle::Weak(w), EraseKind::WTell) => Some(Handle::WTell(if *by_ref { (&w).into() } else { w.into() })),
                        (Handle::Weak(w), EraseKind::WAsk) => Some(Handle::WAsk(if *by_ref { (&w).into() } else { w.into() })),
                        (Handle::Weak(w), EraseKind::WCtl) => Some(Handle::WCtl(if *by_ref { (&w).into() } else { w.into() })),
                        (other, _) => {
                            // not convertible: put it back untouched when it was moved out
                            if !*by_ref {
                                world::with(|w| w.slots.insert(*h, (Arc::new(other), a)));
                            }
                            None
                        }
                    };
                    match new {
                        Some(n) => {
                            let strong = n.is_strong();
                            let old = world::with(|w| w.slots.insert(*to, (Arc::new(n), a)));
                            ev(HKind::Erase, *h, Some(*to), Some(a), true, strong);
                            drop(old);
                        }
                        None => ev(HKind::Erase, *h, Some(*to), Some(a), false, false),
                    }
                }
                None => ev(HKind::Erase, *h, Some(*to), None, false, false),
            }
        }
        Op::AsControl { h, to } => match slot(*h) {
            Some((hd, a)) => {
                let new = match &*hd {
                    Handle::Strong(r) => Some(Handle::Ctl(ActorControl::clone_boxed(r))),
                    Handle::Tell(b) => Some(Handle::Ctl(b.as_control().clone_boxed())),
                    Handle::Ask(b) => Some(Handle::Ctl(b.as_control().clone_boxed())),
                    Handle::Ctl(b) => Some(Handle::Ctl(b.clone_boxed())),
                    Handle::Weak(w) => Some(Handle::WCtl(WeakActorControl::clone_boxed(w))),
                    Handle::WTell(b) => Some(Handle::WCtl(b.as_weak_control().clone_boxed())),
                    Handle::WAsk(b) => Some(Handle::WCtl(b.as_weak_control().clone_boxed())),
                    Handle::WCtl(b) => Some(Handle::WCtl(b.clone_boxed())),
                };
                match new {
                    Some(n) => {
                        let strong = n.is_strong();
                        let old = world::with(|w| w.slots.insert(*to, (Arc::new(n), a)));
                        ev(HKind::AsControl, *h, Some(*to), Some(a), true, strong);
                        drop(old);
                    }
                    None => ev(HKind::AsControl, *h, Some(*to), Some(a), false, false),
                }
            }
            None => ev(HKind::AsControl, *h, Some(*to), None, false, false),
        },
        Op::CloneSelf { to } => {
            let (new, a) = match me {
                SelfRef::Strong(r) => (Some(Handle::Strong(r.clone())), world::actor_of_raw(r.identity().id)),
                SelfRef::Weak(w) => (w.upgrade().map(Handle::Strong), world::actor_of_raw(w.identity().id)),
                SelfRef::None => (None, None),
            };
            match (new, a) {
                (Some(n), Some(a)) => {
                    let old = world::with(|w| w.slots.insert(*to, (Arc::new(n), a)));
                    ev(HKind::CloneSelf, u32::MAX, Some(*to), Some(a), true, true);
                    drop(old);
                }
                (_, a) => ev(HKind::CloneSelf, u32::MAX, Some(*to), a, false, false),
            }
        }
        _ => unreachable!(),
    }
}

struct CancelAfter<'a> {
    inner: Option<BoxFut<'a, Flow>>,
    left: u32,
}
impl Future for CancelAfter<'_> {
    type Output = ();
    fn poll(mut self: Pin<&mut Self>, cx: &mut Context<'_>) -> Poll<()> {
        let this = &mut *self;
        match this.inner.as_mut() {
            None => Poll::Ready(()),
            Some(f) => match f.as_mut().poll(cx) {
                Poll::Ready(_) => {
                    this.inner = None;
                    Poll::Ready(())
                }
                Poll::Pending => {
                    this.left = this.left.saturating_sub(1);
                    if this.left == 0 {
                        world::with(|w| w.probes.cancels_fired += 1);
                        this.inner = None; // drops the in-flight operation here
                        Poll::Ready(())
                    } else {
                        Poll::Pending
                    }
                }
            },
        }
    }
}

/// Exhaust tokio's cooperative budget inside the current poll without yielding.
fn burn_budget() -> impl Future<Output = ()> + Send {
    let mut done = false;
    std::future::poll_fn(move |cx| {
        if done {
            return Poll::Ready(());
        }
        done = true;
        let mut n = 0;
        loop {
            match tokio::task::coop::poll_proceed(cx) {
                Poll::Ready(restore) => {
                    restore.made_progress();
                    n += 1;
                    if n > 1000 {
                        break;
                    }
                }
                Poll::Pending => {
                    world::with(|w| w.probes.budget_exhausted += 1);
                    break;
                }
            }
        }
        Poll::Ready(())
    })
}

/// n immediately-ready budgeted operations: consumes one budget unit each; when the budget is
/// exhausted it yields (Pending + wake) and continues afterwards, as any tokio resource would.
async fn consume_budget(n: u32) {
    for _ in 0..n {
        std::future::poll_fn(|cx| match tokio::task::coop::poll_proceed(cx) {
            Poll::Ready(restore) => {
                restore.made_progress();
                Poll::Ready(())
            }
            Poll::Pending => {
                world::with(|w| w.probes.budget_exhausted += 1);
                Poll::Pending
            }
        })
        .await;
    }
}

/// (tag, slot, message, timeout in microseconds) of a send-family operation
fn send_parts(op: &Op) -> Option<(OpTag, u32, Option<&Msg>, Option<u64>)> {
    Some(match op {
        Op::Tell { h, m } => (OpTag::Tell, *h, Some(m), None),
        Op::TellT { h, m, ms } => (OpTag::TellT, *h, Some(m), Some(ms_to_us(*ms))),
        Op::TellUs { h, m, us } => (OpTag::TellT, *h, Some(m), Some(*us)),
        Op::Ask { h, m } => (OpTag::Ask, *h, Some(m), None),
        Op::AskT { h, m, ms } => (OpTag::AskT, *h, Some(m), Some(ms_to_us(*ms))),
        Op::AskUs { h, m, us } => (OpTag::AskT, *h, Some(m), Some(*us)),
        Op::AskJoin { h, m } => (OpTag::AskJoin, *h, Some(m), None),
        Op::Stop { h } => (OpTag::Stop, *h, None, None),
        _ => return None,
    })
}

pub fn exec<'a>(who: Who, k: u32, op: &'a Op, me: SelfRef<'a>) -> BoxFut<'a, Flow> {
    // send-family operations: the library call is made now (eagerly), the returned future is awaited later
    if let Some((tag, h, m, us)) = send_parts(op) {
        let prepared = prepare_send(who, k, tag, h, m, us);
        return Box::pin(async move {
            finish_send(who, k, tag, prepared).await;
            Flow::Continue
        });
    }
    if let Op::Deferred { op: inner, us } = op {
        // make the call now, await the future only after `us` virtual microseconds
        let f = exec(who, k, inner, me);
        return Box::pin(async move {
            tokio::time::sleep(Duration::from_micros(*us)).await;
            f.await
        });
    }
    if let Op::Unpolled(inner) = op {
        // make the call, never poll the future, drop it
        let f = exec(who, k, inner, me);
        drop(f);
        return Box::pin(async { Flow::Continue });
    }
    Box::pin(async move {
        match op {
            Op::Yield(n) => {
                for _ in 0..*n {
                    tokio::sim::yield_now().await;
                }
            }
            Op::Sleep(ms) => tokio::time::sleep(Duration::from_millis(*ms)).await,
            Op::SleepUs(us) => tokio::time::sleep(Duration::from_micros(*us)).await,
            Op::Tick(period_ms) => {
                let a = who.actor_ctx().unwrap_or(u32::MAX);
                let period = period_ms.max(&1) * 1000;
                let (t0, due) = world::with(|w| {
                    let now = w.t0.elapsed().as_micros() as u64;
                    let due = *w.ticks.entry(a).or_insert(now + period);
                    w.ticks.insert(a, due + period);
                    (w.t0, due)
                });
                tokio::time::sleep_until(t0 + Duration::from_micros(due)).await;
            }
            Op::Stall => std::future::pending::<()>().await,
            Op::Burn(us) => {
                world::with(|w| w.probes.burn_used = true);
                let t = std::time::Instant::now();
                while t.elapsed() < Duration::from_micros(*us) {
                    std::hint::spin_loop();
                }
            }
            Op::Panic => panic!("scripted panic in {who:?} step {k}"),
            Op::Fail(c) => return Flow::Fail(*c),
            Op::Wait(f) => world::wait(*f).await,
            Op::Signal(f) => world::signal(*f),
            Op::BurnBudget => burn_budget().await,
            Op::ConsumeBudget(n) => consume_budget(*n).await,
            Op::Tell { .. } | Op::TellT { .. } | Op::TellUs { .. } | Op::Ask { .. } | Op::AskT { .. } | Op::AskUs { .. } | Op::AskJoin { .. } | Op::Stop { .. } | Op::Unpolled(_) | Op::Deferred { .. } => unreachable!("handled eagerly above"),
            Op::Kill { h } => kill_handle(who, k, *h),
            Op::TellSelf { m, ms } => {
                let up;
                let r: Option<&ActorRef<SimActor>> = match me {
                    SelfRef::Strong(r) => Some(r),
                    SelfRef::Weak(w) => {
                        up = w.upgrade();
                        up.as_ref()
                    }
                    SelfRef::None => None,
                };
                let us = ms_to_us(*ms);
                match r {
                    None => {
                        log(EvKind::Inv { who, k, op: OpTag::TellT, a: who.actor_ctx(), mid: Some(m.id), us: Some(us), via: "self:none".into(), budget: budget_ok() });
                        log(EvKind::Ret { who, k, res: Res::NoHandle, polls: 0 });
                    }
                    Some(r) => {
                        let a = world::actor_of_raw(r.identity().id);
                        log(EvKind::Created { who, k, op: OpTag::TellT, a: a.unwrap_or(u32::MAX), mid: Some(m.id) });
                        let lib = Box::pin(r.tell_with_timeout(Work(m.clone()), dur(us)));
                        let fut: BoxFut<'_, Res> = Box::pin(async move { unit_res(lib.await) });
                        let inv = EvKind::Inv { who, k, op: OpTag::TellT, a, mid: Some(m.id), us: Some(us), via: "self".into(), budget: true };
                        let (res, polls) = Tracked { fut, who, k, polls: 0, done: false, inv: Some(inv) }.await;
                        if matches!(res, Res::ErrTimeout { .. }) {
                            world::with(|w| w.probes.timeouts_fired += 1);
                        }
                        log(EvKind::Ret { who, k, res, polls });
                    }
                }
            }
            Op::StopSelf | Op::KillSelf => {
                let r = match me {
                    SelfRef::Strong(r) => Some(r.clone()),
                    SelfRef::Weak(w) => w.upgrade(),
                    SelfRef::None => None,
                };
                let tag = if matches!(op, Op::StopSelf) { OpTag::Stop } else { OpTag::Kill };
                match r {
                    None => {
                        log(EvKind::Inv { who, k, op: tag, a: who.actor_ctx(), mid: None, us: None, via: "self:none".into(), budget: budget_ok() });
                        log(EvKind::Ret { who, k, res: Res::NoHandle, polls: 0 });
                    }
                    Some(r) => {
                        let a = world::actor_of_raw(r.identity().id);
                        log(EvKind::Inv { who, k, op: tag, a, mid: None, us: None, via: "self".into(), budget: budget_ok() });
                        if tag == OpTag::Kill {
                            let res = unit_res(r.kill());
                            log(EvKind::Ret { who, k, res, polls: 1 });
                        } else {
                            let fut: BoxFut<'_, Res> = Box::pin(async { unit_res(r.stop().await) });
                            let (res, polls) = Tracked { fut, who, k, polls: 0, done: false, inv: None }.await;
                            log(EvKind::Ret { who, k, res, polls });
                        }
                    }
                }
            }
            Op::Clone { .. } | Op::Drop { .. } | Op::Downgrade { .. } | Op::Upgrade { .. } | Op::Erase { .. } | Op::AsControl { .. } | Op::CloneSelf { .. } => handle_op(who, k, op, me),
            Op::IsAlive { h } => observe(who, k, OpTag::IsAlive, *h),
            Op::Identity { h } => observe(who, k, OpTag::Identity, *h),
            Op::Metrics { h } => observe(who, k, OpTag::Metrics, *h),
            Op::Cancel { op: inner, polls, ms } => {
                let f = exec(who, k, inner, me);
                match ms {
                    Some(ms) => {
                        if tokio::time::timeout(Duration::from_millis(*ms), f).await.is_err() {
                            world::with(|w| w.probes.cancels_fired += 1);
                        }
                    }
                    None => CancelAfter { inner: Some(f), left: (*polls).max(1) }.await,
                }
            }
            Op::Join(subs) => {
                let mut futs: Vec<Option<BoxFut<'_, Flow>>> = subs.iter().enumerate().map(|(i, o)| Some(exec(who, 1000 * (k + 1) + i as u32, o, me))).collect();
                std::future::poll_fn(|cx| {
                    let mut pending = false;
                    for f in futs.iter_mut() {
                        if let Some(fut) = f {
                            match fut.as_mut().poll(cx) {
                                Poll::Ready(_) => *f = None,
                                Poll::Pending => pending = true,
                            }
                        }
                    }
                    if pending {
                        Poll::Pending
                    } else {
                        Poll::Ready(())
                    }
                })
                .await;
            }
            Op::Race(subs) => {
                let mut futs: Vec<BoxFut<'_, Flow>> = subs.iter().enumerate().map(|(i, o)| exec(who, 1000 * (k + 1) + i as u32, o, me)).collect();
                std::future::poll_fn(|cx| {
                    for f in futs.iter_mut() {
                        if f.as_mut().poll(cx).is_ready() {
                            return Poll::Ready(());
                        }
                    }
                    if futs.is_empty() {
                        Poll::Ready(())
                    } else {
                        Poll::Pending
                    }
                })
                .await;
                // the losers are dropped here, wherever they happen to be
                drop(futs);
            }
            Op::Fork { id, ops } => {
                let ops = ops.clone();
                let tag = match who {
                    Who::Client(c) => c,
                    Who::Probe(c) => 100 + c,
                    Who::Start(a) | Who::Handler(a, _) | Who::Run(a, _) | Who::Stop(a) => 1000 + a,
                    Who::Fork(a, _) => a,
                };
                let fid = *id;
                tokio::sim::name_next_spawn(format!("fork:{tag}:{fid}"));
                tokio::spawn(async move {
                    let _ = exec_script(Who::Fork(tag, fid), &ops, SelfRef::None).await;
                });
            }
        }
        Flow::Continue
    })
}
