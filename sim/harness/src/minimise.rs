//! Minimisation before reporting (DESIGN.md 2.7): delta-debugging over the scenario, keeping only
//! candidates that still produce the same (property, signature); then schedule simplification.
use crate::exec::{SchedCfg, StrategyCfg};
use crate::model::*;
use crate::monitors::Violation;
use serde_json::Value;

struct M<'a> {
    prop: &'a str,
    sig: String,
    execs: u64,
    budget: u64,
    scheds: Vec<SchedCfg>,
}

impl M<'_> {
    /// does the candidate still show the same violation class under one of the candidate schedules?
    fn test(&mut self, sc: &Scenario) -> Option<(SchedCfg, Violation)> {
        for cfg in self.scheds.clone() {
            if self.execs >= self.budget {
                return None;
            }
            self.execs += 1;
            let jd = crate::judge(self.prop, sc, &cfg);
            if let Some(v) = jd.violations.iter().find(|v| v.sig == self.sig) {
                let v = v.clone();
                // keep the schedule that worked in front
                self.scheds.retain(|c| *c != cfg);
                self.scheds.insert(0, cfg.clone());
                return Some((cfg, v));
            }
        }
        None
    }
}

fn array_paths(v: &Value, cur: &mut Vec<String>, out: &mut Vec<Vec<String>>) {
    match v {
        Value::Array(a) => {
            out.push(cur.clone());
            for (i, x) in a.iter().enumerate() {
                cur.push(i.to_string());
                array_paths(x, cur, out);
                cur.pop();
            }
        }
        Value::Object(o) => {
            for (k, x) in o {
                cur.push(k.clone());
                array_paths(x, cur, out);
                cur.pop();
            }
        }
        _ => {}
    }
}

fn at_mut<'a>(v: &'a mut Value, path: &[String]) -> Option<&'a mut Value> {
    let mut cur = v;
    for p in path {
        cur = match cur {
            Value::Array(a) => a.get_mut(p.parse::<usize>().ok()?)?,
            Value::Object(o) => o.get_mut(p)?,
            _ => return None,
        };
    }
    Some(cur)
}

fn simplify_op(o: &Op) -> Vec<Op> {
    let strip = |m: &Msg| Msg { id: m.id, kind: MsgKind::Work, steps: vec![] };
    let mut c = Vec::new();
    match o {
        Op::Cancel { op, .. } | Op::Unpolled(op) | Op::Deferred { op, .. } => c.push((**op).clone()),
        Op::TellT { h, m, .. } => c.push(Op::Tell { h: *h, m: m.clone() }),
        Op::AskT { h, m, .. } => c.push(Op::Ask { h: *h, m: m.clone() }),
        Op::TellUs { h, m, .. } => c.push(Op::Tell { h: *h, m: m.clone() }),
        Op::AskUs { h, m, .. } => c.push(Op::Ask { h: *h, m: m.clone() }),
        Op::ConsumeBudget(n) if *n > 1 => c.push(Op::ConsumeBudget(1)),
        Op::Sleep(n) if *n > 1 => c.push(Op::Sleep(1)),
        Op::Yield(n) if *n > 1 => c.push(Op::Yield(1)),
        Op::Fork { ops, .. } if ops.len() == 1 => c.push(ops[0].clone()),
        Op::Join(ops) | Op::Race(ops) if ops.len() == 1 => c.push(ops[0].clone()),
        _ => {}
    }
    match o {
        Op::Tell { h, m } if !m.steps.is_empty() || m.kind != MsgKind::Work => c.push(Op::Tell { h: *h, m: strip(m) }),
        Op::Ask { h, m } if !m.steps.is_empty() || m.kind != MsgKind::Work => c.push(Op::Ask { h: *h, m: strip(m) }),
        Op::TellT { h, m, ms } if !m.steps.is_empty() || m.kind != MsgKind::Work => c.push(Op::TellT { h: *h, m: strip(m), ms: *ms }),
        Op::AskT { h, m, ms } if !m.steps.is_empty() || m.kind != MsgKind::Work => c.push(Op::AskT { h: *h, m: strip(m), ms: *ms }),
        _ => {}
    }
    c
}

/// visit every op list of the scenario (top level lists and message steps) with a mutable callback
fn for_each_list(sc: &mut Scenario, f: &mut dyn FnMut(&mut Vec<Op>)) {
    fn rec(v: &mut Vec<Op>, f: &mut dyn FnMut(&mut Vec<Op>)) {
        f(v);
        for o in v.iter_mut() {
            match o {
                Op::Tell { m, .. } | Op::TellT { m, .. } | Op::Ask { m, .. } | Op::AskT { m, .. } | Op::AskJoin { m, .. } | Op::TellUs { m, .. } | Op::AskUs { m, .. } | Op::TellSelf { m, .. } => rec(&mut m.steps, f),
                Op::Fork { ops, .. } => rec(ops, f),
                Op::Join(ops) | Op::Race(ops) => rec(ops, f),
                Op::Cancel { op, .. } | Op::Unpolled(op) | Op::Deferred { op, .. } => {
                    if let Op::Tell { m, .. } | Op::TellT { m, .. } | Op::Ask { m, .. } | Op::AskT { m, .. } | Op::AskJoin { m, .. } | Op::TellUs { m, .. } | Op::AskUs { m, .. } = &mut **op {
                        rec(&mut m.steps, f)
                    }
                }
                _ => {}
            }
        }
    }
    for a in sc.actors.iter_mut() {
        rec(&mut a.on_start, f);
        rec(&mut a.on_stop, f);
        for r in a.on_run.iter_mut() {
            rec(&mut r.steps, f);
        }
    }
    for c in sc.clients.iter_mut().chain(sc.probes.iter_mut()) {
        rec(c, f);
    }
}

pub fn minimise(prop: &str, v0: &Violation, sc: &Scenario, cfg: &SchedCfg, budget: u64) -> (Scenario, SchedCfg, Violation, u64) {
    let mut alt = Vec::new();
    let mut plain = cfg.clone();
    plain.replay = None;
    alt.push(plain.clone());
    // simpler schedules first when they work
    let mut fifo = plain.clone();
    fifo.strategy = StrategyCfg::Fifo;
    fifo.spurious_permille = 0;
    alt.push(fifo);
    for i in 1..=3u64 {
        let mut c = plain.clone();
        c.seed = cfg.seed.wrapping_add(i.wrapping_mul(0x9E37_79B9));
        c.spurious_permille = 0;
        alt.push(c);
    }
    // signatures that rest on a promise of the generating family cannot be shrunk structurally
    let budget = if sc.expect.is_some() && v0.prop == "C14" { 0 } else { budget };
    let mut m = M { prop, sig: v0.sig.clone(), execs: 0, budget, scheds: alt };
    let mut best = sc.clone();
    let mut best_cfg = plain;
    let mut best_v = v0.clone();
    // 1. structural deletion on the JSON form
    let mut progress = true;
    while progress && m.execs < m.budget {
        progress = false;
        let root = serde_json::to_value(&best).unwrap();
        let mut paths = Vec::new();
        array_paths(&root, &mut Vec::new(), &mut paths);
        // outermost lists first: dropping a whole client beats dropping its ops one by one
        paths.sort_by_key(|p| p.len());
        'paths: for p in paths {
            // only lists of scenario structure: never inside decision lists etc. (none here)
            let len = {
                let mut r = root.clone();
                match at_mut(&mut r, &p) {
                    Some(Value::Array(a)) => a.len(),
                    _ => continue,
                }
            };
            // the actor list keeps its indices meaningful: never delete actors
            if (p.len() == 1 && p[0] == "actors") || p.first().map(|x| x == "expect").unwrap_or(false) {
                continue;
            }
            for idx in (0..len).rev() {
                if m.execs >= m.budget {
                    break 'paths;
                }
                let mut cand = serde_json::to_value(&best).unwrap();
                match at_mut(&mut cand, &p) {
                    Some(Value::Array(a)) if idx < a.len() => {
                        a.remove(idx);
                    }
                    _ => continue 'paths,
                }
                let cs: Scenario = match serde_json::from_value(cand) {
                    Ok(s) => s,
                    Err(_) => continue,
                };
                if let Some((c, v)) = m.test(&cs) {
                    best = cs;
                    best_cfg = c;
                    best_v = v;
                    progress = true;
                }
            }
        }
    }
    // 2. typed simplifications
    let mut progress = true;
    while progress && m.execs < m.budget {
        progress = false;
        // enumerate (list number, index, alternative)
        let mut n_lists = 0;
        for_each_list(&mut best.clone(), &mut |_| n_lists += 1);
        for li in 0..n_lists {
            let mut len = 0;
            let mut k = 0;
            for_each_list(&mut best.clone(), &mut |v| {
                if k == li {
                    len = v.len();
                }
                k += 1;
            });
            for oi in 0..len {
                let mut alts: Vec<Op> = Vec::new();
                let mut k = 0;
                for_each_list(&mut best.clone(), &mut |v| {
                    if k == li {
                        if let Some(o) = v.get(oi) {
                            alts = simplify_op(o);
                        }
                    }
                    k += 1;
                });
                for alt in alts {
                    if m.execs >= m.budget {
                        break;
                    }
                    let mut cs = best.clone();
                    let mut k = 0;
                    for_each_list(&mut cs, &mut |v| {
                        if k == li {
                            if let Some(o) = v.get_mut(oi) {
                                *o = alt.clone();
                            }
                        }
                        k += 1;
                    });
                    if cs != best {
                        if let Some((c, v)) = m.test(&cs) {
                            best = cs;
                            best_cfg = c;
                            best_v = v;
                            progress = true;
                            break;
                        }
                    }
                }
            }
        }
        // actor-level simplifications
        for a in 0..best.actors.len() {
            for which in 0..4 {
                if m.execs >= m.budget {
                    break;
                }
                let mut cs = best.clone();
                match which {
                    0 if !cs.actors[a].on_start.is_empty() => cs.actors[a].on_start.clear(),
                    1 if !cs.actors[a].on_run.is_empty() => cs.actors[a].on_run.clear(),
                    2 if !cs.actors[a].on_stop.is_empty() => cs.actors[a].on_stop.clear(),
                    3 if cs.peer_slots => cs.peer_slots = false,
                    _ => continue,
                }
                if let Some((c, v)) = m.test(&cs) {
                    best = cs;
                    best_cfg = c;
                    best_v = v;
                    progress = true;
                }
            }
        }
    }
    (best, best_cfg, best_v, m.execs)
}
