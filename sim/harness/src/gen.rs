//! Scenario generators: one generic, knob-driven generator (swarm style: the knobs themselves are
//! drawn per run) plus structured families for the properties that need forced situations.
use crate::exec::{SchedCfg, StrategyCfg};
use crate::model::*;
use tokio::sim::Rng;

pub struct G {
    pub rng: Rng,
    pub next_mid: u64,
    pub next_fork: u32,
}

impl G {
    pub fn new(seed: u64) -> G {
        G { rng: Rng(seed ^ 0x6A09_E667_F3BC_C909), next_mid: 1, next_fork: 1 }
    }
    pub fn mid(&mut self) -> u64 {
        let m = self.next_mid;
        self.next_mid += 1;
        m
    }
    pub fn below(&mut self, n: u64) -> u64 {
        self.rng.below(n)
    }
    pub fn range(&mut self, lo: u64, hi: u64) -> u64 {
        lo + self.rng.below(hi - lo + 1)
    }
    pub fn chance(&mut self, permille: u32) -> bool {
        self.rng.chance(permille)
    }
    pub fn pick<T: Clone>(&mut self, v: &[T]) -> T {
        v[self.rng.below(v.len() as u64) as usize].clone()
    }
    /// weighted choice: returns index
    pub fn weighted(&mut self, w: &[u32]) -> usize {
        let total: u64 = w.iter().map(|x| *x as u64).sum();
        if total == 0 {
            return 0;
        }
        let mut r = self.rng.below(total);
        for (i, x) in w.iter().enumerate() {
            if r < *x as u64 {
                return i;
            }
            r -= *x as u64;
        }
        w.len() - 1
    }
}

#[derive(Clone, Debug)]
pub struct Knobs {
    pub actors: (u64, u64),
    pub caps: Vec<Option<usize>>,
    pub clients: (u64, u64),
    pub ops: (u64, u64),
    // client op weights
    pub w_tell: u32,
    pub w_ask: u32,
    pub w_tellt: u32,
    pub w_askt: u32,
    pub w_askjoin: u32,
    pub w_stop: u32,
    pub w_kill: u32,
    pub w_clone: u32,
    pub w_drop: u32,
    pub w_weak: u32,
    pub w_erase: u32,
    pub w_alive: u32,
    pub w_ident: u32,
    pub w_metrics: u32,
    pub w_sleep: u32,
    pub w_yield: u32,
    pub w_cancel: u32,
    pub w_fork: u32,
    pub w_budget: u32,
    pub w_race: u32,
    // message handler content
    pub h_steps: u32, // permille of messages that carry steps
    pub h_yield: u32,
    pub h_sleep: u32,
    pub h_tell_peer: u32,
    pub h_ask_peer: u32,
    pub h_stopself: u32,
    pub h_killself: u32,
    pub h_panic: u32,
    pub h_stall: u32,
    pub h_cloneself: u32,
    pub h_budget: u32,
    pub h_burn: u32,
    /// concurrent sub-operations inside one handler (join!)
    pub h_join: u32,
    /// tell_with_timeout to the handler's own actor through the reference the handler was given
    pub h_tell_self: u32,
    // hooks
    pub start_steps: u32, // permille
    pub start_fail: u32,
    pub start_panic: u32,
    pub run_scripts: u32, // permille of actors with on_run scripts
    pub run_err: u32,
    pub run_panic: u32,
    pub stop_steps: u32,
    pub stop_fail: u32,
    pub stop_panic: u32,
    pub timeouts: Vec<u64>,
    pub sleeps: Vec<u64>,
    /// 0 none, 1 stop, 2 drop all, 3 mixed
    pub end: u32,
    pub probes: bool,
    pub w_workr: u32,
    pub peer_slots: bool,
}

impl Knobs {
    pub fn base() -> Knobs {
        Knobs {
            actors: (1, 2),
            caps: vec![Some(1), Some(2), Some(3), Some(4), Some(8), Some(32), None],
            clients: (1, 4),
            ops: (1, 6),
            w_tell: 30,
            w_ask: 20,
            w_tellt: 8,
            w_askt: 8,
            w_askjoin: 2,
            w_stop: 3,
            w_kill: 0,
            w_clone: 5,
            w_drop: 5,
            w_weak: 3,
            w_erase: 3,
            w_alive: 4,
            w_ident: 2,
            w_metrics: 0,
            w_sleep: 6,
            w_yield: 8,
            w_cancel: 3,
            w_fork: 1,
            w_budget: 1,
            w_race: 2,
            h_steps: 400,
            h_yield: 30,
            h_sleep: 30,
            h_tell_peer: 6,
            h_ask_peer: 4,
            h_stopself: 1,
            h_killself: 0,
            h_panic: 0,
            h_stall: 0,
            h_cloneself: 1,
            h_budget: 1,
            h_burn: 0,
            h_join: 2,
            h_tell_self: 3,
            start_steps: 300,
            start_fail: 0,
            start_panic: 0,
            run_scripts: 300,
            run_err: 0,
            run_panic: 0,
            stop_steps: 200,
            stop_fail: 0,
            stop_panic: 0,
            timeouts: vec![0, 1, 2, 5, 50, 3_600_000, FOREVER],
            sleeps: vec![1, 2, 3, 5, 10, 50],
            end: 3,
            probes: true,
            w_workr: 10,
            peer_slots: true,
        }
    }
    /// fault-injecting variant: kills, panics, hook errors, stalls
    pub fn faulty() -> Knobs {
        let mut k = Knobs::base();
        k.w_kill = 5;
        k.h_killself = 2;
        k.h_panic = 4;
        k.h_stall = 1;
        k.start_fail = 60;
        k.start_panic = 40;
        k.run_err = 150;
        k.run_panic = 60;
        k.stop_fail = 100;
        k.stop_panic = 50;
        k
    }
}

fn gen_msg(g: &mut G, k: &Knobs, actor: usize, n_actors: usize, depth: u32, join: bool) -> Msg {
    let id = g.mid();
    let mut steps = Vec::new();
    if g.chance(k.h_steps) {
        let n = g.range(1, 3);
        for _ in 0..n {
            let w = [k.h_yield, k.h_sleep, k.h_tell_peer, k.h_ask_peer, k.h_stopself, k.h_killself, k.h_panic, k.h_stall, k.h_cloneself, k.h_budget, k.h_burn, k.h_join, k.h_tell_self];
            match g.weighted(&w) {
                0 => steps.push(Op::Yield(g.range(1, 3) as u32)),
                1 => steps.push(Op::Sleep(g.pick(&k.sleeps))),
                2 if depth < 2 && n_actors > 1 => {
                    // any peer for tells
                    let peer = g.below(n_actors as u64) as usize;
                    let m = gen_msg(g, k, peer, n_actors, depth + 1, false);
                    steps.push(Op::Tell { h: 50 + peer as u32, m });
                }
                3 if depth < 2 && actor + 1 < n_actors => {
                    // asks only "upwards": the static ask graph stays acyclic
                    let peer = g.range(actor as u64 + 1, n_actors as u64 - 1) as usize;
                    let m = gen_msg(g, k, peer, n_actors, depth + 1, false);
                    if g.chance(300) {
                        steps.push(Op::AskT { h: 50 + peer as u32, m, ms: g.pick(&k.timeouts) });
                    } else {
                        steps.push(Op::Ask { h: 50 + peer as u32, m });
                    }
                }
                4 => steps.push(Op::StopSelf),
                5 => steps.push(Op::KillSelf),
                6 => steps.push(Op::Panic),
                7 => steps.push(Op::Stall),
                8 => steps.push(Op::CloneSelf { to: 200 + g.below(4) as u32 }),
                9 => steps.push(Op::BurnBudget),
                10 => steps.push(Op::Burn(g.range(200, 1500))),
                11 if depth < 2 && n_actors > 1 => {
                    // join!: two or three operations in flight at once from this handler; asks still
                    // only go upwards, so the static ask graph stays acyclic
                    let mut subs = Vec::new();
                    for _ in 0..g.range(2, 3) {
                        if actor + 1 < n_actors && g.chance(700) {
                            let peer = g.range(actor as u64 + 1, n_actors as u64 - 1) as usize;
                            let m = gen_msg(g, k, peer, n_actors, depth + 1, false);
                            subs.push(if g.chance(250) { Op::AskT { h: 50 + peer as u32, m, ms: g.pick(&k.timeouts) } } else { Op::Ask { h: 50 + peer as u32, m } });
                        } else if g.chance(500) {
                            let peer = g.below(n_actors as u64) as usize;
                            let m = gen_msg(g, k, peer, n_actors, depth + 1, false);
                            subs.push(Op::Tell { h: 50 + peer as u32, m });
                        } else {
                            subs.push(Op::Sleep(g.pick(&k.sleeps)));
                        }
                    }
                    // in fault-injecting profiles a branch may panic while its siblings are in flight: they are then
                    // dropped during unwinding (destructors that behave differently while panicking)
                    if k.h_panic > 0 && g.chance(120) {
                        subs.push(Op::Panic);
                    }
                    steps.push(if g.chance(350) { Op::Race(subs) } else { Op::Join(subs) });
                }
                12 => steps.push(Op::TellSelf { m: Msg::work(g.mid()), ms: g.pick(&[1u64, 2, 5]) }),
                _ => steps.push(Op::Yield(1)),
            }
        }
    }
    let kind = if join {
        let out = match g.below(6) {
            0 => JobOut::Panic,
            1 => JobOut::Abort,
            _ => JobOut::Value,
        };
        MsgKind::Join { delay_ms: g.pick(&[0u64, 1, 2, 3, 10, 50]), out }
    } else if g.chance(k.w_workr * 10) {
        MsgKind::WorkR { err: g.chance(500) }
    } else {
        MsgKind::Work
    };
    Msg { id, kind, steps }
}

fn gen_hook_steps(g: &mut G, k: &Knobs, n: u64) -> Vec<Op> {
    let mut v = Vec::new();
    for _ in 0..n {
        match g.below(8) {
            0 | 1 => v.push(Op::Yield(g.range(1, 2) as u32)),
            2 | 3 | 4 => v.push(Op::Sleep(g.pick(&k.sleeps))),
            5 => v.push(Op::ConsumeBudget(g.range(1, 6) as u32)),
            // fault-injecting profiles: a lifecycle hook that kills or stops its own actor (through the reference it was
            // given) and then goes on - returns an error, say - in the same poll
            6 if k.h_killself > 0 && g.chance(400) => v.push(Op::KillSelf),
            7 if k.h_killself > 0 && g.chance(250) => v.push(Op::StopSelf),
            7 if k.h_tell_self > 0 && g.chance(300) => v.push(Op::TellSelf { m: Msg::work(g.mid()), ms: g.pick(&[1u64, 2, 5]) }),
            _ => v.push(Op::Yield(1)),
        }
    }
    v
}

pub fn gen_actor(g: &mut G, k: &Knobs) -> ActorSpec {
    let mut a = ActorSpec { cap: g.pick(&k.caps), ..Default::default() };
    if g.chance(k.start_steps) {
        let n = g.range(1, 2);
        a.on_start = gen_hook_steps(g, k, n);
    }
    if g.chance(k.start_fail) {
        a.on_start.push(Op::Fail(100 + g.below(50) as i64));
    } else if g.chance(k.start_panic) {
        a.on_start.push(Op::Panic);
    }
    if g.chance(k.run_scripts) {
        let n = g.range(1, 4);
        for i in 0..n {
            let ns = g.range(0, 2);
            let mut steps = gen_hook_steps(g, k, ns);
            if g.chance(k.run_panic) {
                steps.push(Op::Panic);
            }
            let out = if g.chance(k.run_err) {
                RunOut::Err(200 + g.below(50) as i64)
            } else if i + 1 == n || g.chance(200) {
                RunOut::False
            } else {
                RunOut::True
            };
            // an on_run script that never awaits and returns Ok(true) would spin; always await
            if steps.is_empty() && out == RunOut::True {
                steps.push(Op::Sleep(g.pick(&k.sleeps)));
            }
            let stop = out != RunOut::True;
            a.on_run.push(RunScript { steps, out });
            if stop {
                break;
            }
        }
    }
    if g.chance(k.stop_steps) {
        let n = g.range(1, 2);
        a.on_stop = gen_hook_steps(g, k, n);
    }
    if g.chance(k.stop_fail) {
        a.on_stop.push(Op::Fail(300 + g.below(50) as i64));
    } else if g.chance(k.stop_panic) {
        a.on_stop.push(Op::Panic);
    }
    a
}

fn gen_client_op(g: &mut G, k: &Knobs, c: usize, n_actors: usize, own: &mut Vec<(u32, usize)>, depth: u32) -> Op {
    // handle choice: mostly the shared initial slot of a random actor, sometimes an own slot.
    // `a` is always the actor the chosen handle refers to: messages are generated for their real
    // target, which keeps the static ask graph acyclic (asks only go to higher-numbered actors).
    let mut a = g.below(n_actors as u64) as usize;
    let h = if !own.is_empty() && g.chance(400) {
        let (slot, act) = g.pick(own);
        a = act;
        slot
    } else {
        a as u32
    };
    let w = [
        k.w_tell, k.w_ask, k.w_tellt, k.w_askt, k.w_askjoin, k.w_stop, k.w_kill, k.w_clone, k.w_drop, k.w_weak, k.w_erase, k.w_alive, k.w_ident, k.w_metrics, k.w_sleep, k.w_yield, k.w_cancel,
        k.w_fork, k.w_budget, k.w_race,
    ];
    match g.weighted(&w) {
        0 => Op::Tell { h, m: gen_msg(g, k, a, n_actors, 0, false) },
        1 => Op::Ask { h, m: gen_msg(g, k, a, n_actors, 0, false) },
        // a share of the timeouts is sub-millisecond (tokio's timer wheel has 1 ms resolution)
        2 if g.chance(150) => Op::TellUs { h, m: gen_msg(g, k, a, n_actors, 0, false), us: g.pick(&[1u64, 100, 250, 500, 900, 999, 1500]) },
        3 if g.chance(150) => Op::AskUs { h, m: gen_msg(g, k, a, n_actors, 0, false), us: g.pick(&[1u64, 100, 250, 500, 900, 999, 1500]) },
        2 => Op::TellT { h, m: gen_msg(g, k, a, n_actors, 0, false), ms: g.pick(&k.timeouts) },
        3 => Op::AskT { h, m: gen_msg(g, k, a, n_actors, 0, false), ms: g.pick(&k.timeouts) },
        4 => Op::AskJoin { h: a as u32, m: gen_msg(g, k, a, n_actors, 0, true) },
        5 => Op::Stop { h },
        6 => Op::Kill { h },
        7 => {
            let to = 100 + (c as u32) * 10 + own.len() as u32 % 8;
            own.retain(|x| x.0 != to);
            own.push((to, a));
            Op::Clone { h, to }
        }
        8 => {
            if let Some(pos) = own.iter().position(|x| x.0 == h) {
                own.remove(pos);
            }
            Op::Drop { h }
        }
        9 => {
            let to = 100 + (c as u32) * 10 + 8;
            if g.chance(500) {
                Op::Downgrade { h, to }
            } else {
                // the weak slot may point at any actor this client downgraded last: messages through the
                // upgraded handle are generated without nested asks (see below), so no actor is recorded
                let to2 = 100 + (c as u32) * 10 + 9;
                Op::Upgrade { h: to, to: to2 }
            }
        }
        10 => {
            let to = 100 + (c as u32) * 10 + own.len() as u32 % 8;
            own.retain(|x| x.0 != to);
            own.push((to, a));
            let kind = match g.below(6) {
                0 => EraseKind::Tell,
                1 => EraseKind::Ask,
                2 => EraseKind::Ctl,
                3 => EraseKind::WTell,
                4 => EraseKind::WAsk,
                _ => EraseKind::WCtl,
            };
            if g.chance(200) {
                Op::AsControl { h, to }
            } else {
                Op::Erase { h, to, kind, by_ref: g.chance(700) || h < 100 }
            }
        }
        11 => Op::IsAlive { h },
        12 => Op::Identity { h },
        13 => Op::Metrics { h: a as u32 },
        14 => Op::Sleep(g.pick(&k.sleeps)),
        15 => Op::Yield(g.range(1, 3) as u32),
        16 if depth == 0 => {
            let inner = match g.below(6) {
                5 => Op::AskJoin { h: a as u32, m: gen_msg(g, k, a, n_actors, 0, true) },
                4 => Op::Stop { h },
                0 => Op::Tell { h, m: gen_msg(g, k, a, n_actors, 0, false) },
                1 => Op::TellT { h, m: gen_msg(g, k, a, n_actors, 0, false), ms: g.pick(&k.timeouts) },
                2 => Op::Ask { h, m: gen_msg(g, k, a, n_actors, 0, false) },
                _ => Op::AskT { h, m: gen_msg(g, k, a, n_actors, 0, false), ms: g.pick(&k.timeouts) },
            };
            if g.chance(150) {
                // the call is made, the future is dropped without ever being polled: nothing may happen
                Op::Unpolled(Box::new(if g.chance(150) { Op::Stop { h } } else { inner }))
            } else if g.chance(500) {
                Op::Cancel { op: Box::new(inner), polls: g.range(1, 2) as u32, ms: None }
            } else {
                Op::Cancel { op: Box::new(inner), polls: 0, ms: Some(g.pick(&k.sleeps)) }
            }
        }
        17 if depth == 0 => {
            let id = g.next_fork;
            g.next_fork += 1;
            let n = g.range(1, 3);
            let mut ops = Vec::new();
            let mut own2 = Vec::new();
            for _ in 0..n {
                ops.push(gen_client_op(g, k, c, n_actors, &mut own2, 1));
            }
            Op::Fork { id, ops }
        }
        18 => Op::BurnBudget,
        19 if depth == 0 => {
            // select!-style race (or join!) of a few calls from one client task
            let mut subs = Vec::new();
            for _ in 0..g.range(2, 3) {
                subs.push(match g.below(5) {
                    0 => Op::Tell { h, m: gen_msg(g, k, a, n_actors, 0, false) },
                    1 => Op::Ask { h, m: gen_msg(g, k, a, n_actors, 0, false) },
                    2 => Op::AskT { h, m: gen_msg(g, k, a, n_actors, 0, false), ms: g.pick(&k.timeouts) },
                    3 => Op::TellT { h, m: gen_msg(g, k, a, n_actors, 0, false), ms: g.pick(&k.timeouts) },
                    _ => Op::Sleep(g.pick(&k.sleeps)),
                });
            }
            if g.chance(600) {
                Op::Race(subs)
            } else {
                Op::Join(subs)
            }
        }
        _ => Op::Yield(1),
    }
}

/// The generic generator.
pub fn generic(g: &mut G, k: &Knobs) -> Scenario {
    let n_actors = g.range(k.actors.0, k.actors.1) as usize;
    let mut sc = Scenario { peer_slots: k.peer_slots, ..Default::default() };
    for _ in 0..n_actors {
        sc.actors.push(gen_actor(g, k));
    }
    let n_clients = g.range(k.clients.0, k.clients.1) as usize;
    let end = if k.end == 3 { g.range(0, 2) as u32 } else { k.end };
    for c in 0..n_clients {
        let mut own: Vec<(u32, usize)> = Vec::new();
        let mut ops = Vec::new();
        let n = g.range(k.ops.0, k.ops.1);
        for _ in 0..n {
            ops.push(gen_client_op(g, k, c, n_actors, &mut own, 0));
        }
        if end == 2 {
            // drop everything this client created
            for (h, _) in own.drain(..) {
                ops.push(Op::Drop { h });
            }
            ops.push(Op::Drop { h: 100 + (c as u32) * 10 + 9 });
        }
        sc.clients.push(ops);
    }
    match end {
        1 => {
            // one stop per actor, by a random client at a random position
            for a in 0..n_actors {
                let c = g.below(n_clients as u64) as usize;
                let pos = g.below(sc.clients[c].len() as u64 + 1) as usize;
                sc.clients[c].insert(pos, Op::Stop { h: if k.peer_slots && g.chance(500) { 50 + a as u32 } else { a as u32 } });
            }
        }
        2 => {
            // shared slots (initial, peer, self-clones) are dropped too, each by some client, at the end or right away
            for a in 0..n_actors {
                for base in [0u32, 50] {
                    if base == 50 && !k.peer_slots {
                        continue;
                    }
                    let c = g.below(n_clients as u64) as usize;
                    if g.chance(300) {
                        let pos = g.below(sc.clients[c].len() as u64 + 1) as usize;
                        sc.clients[c].insert(pos, Op::Drop { h: base + a as u32 });
                    } else {
                        sc.clients[c].push(Op::Drop { h: base + a as u32 });
                    }
                }
            }
            let c = g.below(n_clients as u64) as usize;
            // slots filled by CloneSelf / weak-upgrades are released by a late janitor client
            let mut janitor = vec![Op::Sleep(500)];
            for s in 200..204 {
                janitor.push(Op::Drop { h: s });
            }
            let _ = c;
            sc.clients.push(janitor);
        }
        _ => {}
    }
    if k.probes {
        let mut p = Vec::new();
        for a in 0..n_actors {
            for h in [a as u32, 50 + a as u32] {
                if h >= 50 && !k.peer_slots {
                    continue;
                }
                p.push(Op::IsAlive { h });
                p.push(Op::Ask { h, m: Msg::work(g.mid()) });
            }
        }
        sc.probes.push(p);
    }
    sc
}

/// Schedule configuration, swarm style.
pub fn gen_sched(seed: u64) -> SchedCfg {
    let mut r = Rng(seed ^ 0x0BAD_5EED_CAFE_F00D);
    let strategy = match r.below(100) {
        0..=34 => StrategyCfg::Uniform,
        35..=54 => StrategyCfg::Sticky([500, 800, 950][r.below(3) as usize]),
        55..=69 => StrategyCfg::Pct { depth: 1 + r.below(3) as u32, horizon: [20, 60, 200][r.below(3) as usize] },
        70..=79 => StrategyCfg::Fifo,
        _ => {
            let v = match r.below(7) {
                0 => vec!["actor:".to_string()],
                1 => vec!["client:".to_string(), "fork:".to_string()],
                2 => vec!["actor:0".to_string()],
                3 => vec!["client:0".to_string()],
                4 => vec!["join:".to_string()],
                5 => vec!["actor:1".to_string()],
                _ => vec!["client:1".to_string(), "client:2".to_string()],
            };
            StrategyCfg::Starve(v)
        }
    };
    let spurious_permille = if r.below(100) < 70 { 0 } else { [10, 30, 100][r.below(3) as usize] };
    // the window between a send's slot reservation and its push (only open on real threads): open it in a
    // third of the schedules, for some or for all sends
    let split_permille = match r.below(100) {
        0..=66 => 0,
        67..=84 => 300,
        _ => 1000,
    };
    SchedCfg { seed, strategy, spurious_permille, max_steps: 20_000, replay: None, split_permille }
}
