//! The per-run world: history, handle table, barriers, tracing capture. Thread-local (one
//! simulation per thread); logging never draws from a PRNG and reads only the virtual clock.
use crate::actor::{Reply, SimActor, Work};
use rsactor::{ActorControl, ActorRef, ActorWeak, AskHandler, TellHandler, WeakActorControl, WeakAskHandler, WeakTellHandler};
use serde::{Deserialize, Serialize};
use std::cell::RefCell;
use std::collections::BTreeMap;
use std::task::Waker;

#[derive(Clone, Copy, Debug, Serialize, Deserialize, PartialEq, Eq, PartialOrd, Ord, Hash)]
pub enum Who {
    Client(u32),
    /// probe-phase client
    Probe(u32),
    Start(u32),
    /// (actor, message id)
    Handler(u32, u64),
    /// (actor, invocation index)
    Run(u32, u32),
    Stop(u32),
    /// forked helper: (spawner kind hash, fork id)
    Fork(u32, u32),
}

impl Who {
    /// the actor in whose hook context this operation runs (deadlock detection tracks these)
    pub fn actor_ctx(&self) -> Option<u32> {
        match self {
            Who::Start(a) | Who::Handler(a, _) | Who::Run(a, _) | Who::Stop(a) => Some(*a),
            _ => None,
        }
    }
}

#[derive(Clone, Copy, Debug, Serialize, Deserialize, PartialEq, Eq, Hash)]
pub enum OpTag {
    Tell,
    TellT,
    Ask,
    AskT,
    AskJoin,
    Stop,
    Kill,
    IsAlive,
    Identity,
    Metrics,
    Sleep,
}

impl OpTag {
    pub fn is_tell(self) -> bool {
        matches!(self, OpTag::Tell | OpTag::TellT)
    }
    pub fn is_ask(self) -> bool {
        matches!(self, OpTag::Ask | OpTag::AskT | OpTag::AskJoin)
    }
    pub fn is_send(self) -> bool {
        self.is_tell() || self.is_ask()
    }
}

#[derive(Clone, Debug, Serialize, Deserialize, PartialEq, Eq, Hash)]
pub enum Res {
    Ok,
    Reply { mid: u64, nonce: u64, idx: u64 },
    JoinVal(u64),
    ErrSend,
    ErrRecv,
    ErrTimeout { retryable: bool },
    ErrJoinPanic,
    ErrJoinCancelled,
    ErrDowncast,
    ErrOther(String),
    Bool(bool),
    /// (run-local actor index if known, raw id, type name)
    Ident { a: Option<u32>, raw: u64, name: String },
    Metrics { count: u64, avg_ns: u64, max_ns: u64, snap_count: u64, snap_avg_ns: u64, snap_max_ns: u64 },
    /// operation not applicable to the kind of handle in the slot (harness-level no-op)
    Unsupported,
    /// slot empty
    NoHandle,
}

impl Res {
    pub fn is_ok(&self) -> bool {
        matches!(self, Res::Ok | Res::Reply { .. } | Res::JoinVal(_))
    }
    pub fn is_delivery_err(&self) -> bool {
        matches!(self, Res::ErrSend | Res::ErrRecv | Res::ErrTimeout { .. })
    }
    pub fn short(&self) -> &'static str {
        match self {
            Res::Ok => "Ok",
            Res::Reply { .. } => "Reply",
            Res::JoinVal(_) => "JoinVal",
            Res::ErrSend => "ErrSend",
            Res::ErrRecv => "ErrRecv",
            Res::ErrTimeout { .. } => "ErrTimeout",
            Res::ErrJoinPanic => "ErrJoinPanic",
            Res::ErrJoinCancelled => "ErrJoinCancelled",
            Res::ErrDowncast => "ErrDowncast",
            Res::ErrOther(_) => "ErrOther",
            Res::Bool(_) => "Bool",
            Res::Ident { .. } => "Ident",
            Res::Metrics { .. } => "Metrics",
            Res::Unsupported => "Unsupported",
            Res::NoHandle => "NoHandle",
        }
    }
}

#[derive(Clone, Debug, Serialize, Deserialize, PartialEq, Eq, Hash)]
pub enum Out {
    Ok,
    Err(i64),
    Panic,
    /// future dropped before completion (on_run cancelled by an arriving message, or task torn down)
    Dropped,
}

#[derive(Clone, Debug, Serialize, Deserialize, PartialEq, Eq, Hash)]
pub enum RunOutEv {
    True,
    False,
    Err(i64),
    Panic,
    Dropped,
}

#[derive(Clone, Debug, Serialize, Deserialize, PartialEq, Eq, Hash)]
pub enum JoinRes {
    Completed { killed: bool, journal: Vec<String>, acc_ok: bool },
    Failed { phase: String, code: i64, killed: bool, journal: Option<Vec<String>>, acc_ok: bool },
    Panic(String),
    Cancelled,
}

#[derive(Clone, Debug, Serialize, Deserialize, PartialEq, Eq, Hash)]
pub enum HKind {
    Clone,
    Drop,
    Downgrade,
    Upgrade,
    Erase,
    AsControl,
    CloneSelf,
}

#[derive(Clone, Debug, Serialize, Deserialize, PartialEq, Eq, Hash)]
pub enum EvKind {
    Inv { who: Who, k: u32, op: OpTag, a: Option<u32>, mid: Option<u64>, /// timeout in microseconds (u64::MAX = Duration::MAX)
        us: Option<u64>, via: String, budget: bool },
    Ret { who: Who, k: u32, res: Res, polls: u32 },
    Cancelled { who: Who, k: u32, polls: u32 },
    /// the library call of a send-family operation was made (its future exists; nothing polled yet)
    Created { who: Who, k: u32, op: OpTag, a: u32, mid: Option<u64> },
    /// synchronous handle-table operation (single event): result strong/weak/none after the op
    Handle { who: Who, k: u32, op: HKind, h: u32, to: Option<u32>, a: Option<u32>, ok: bool, strong: bool, moved: bool },
    StartEnter { a: u32 },
    StartExit { a: u32, out: Out },
    HEnter { a: u32, mid: u64 },
    HExit { a: u32, mid: u64, nonce: u64, out: Out },
    TellResult { a: u32, mid: u64, err: bool },
    RunEnter { a: u32, n: u32 },
    RunStep { a: u32, n: u32, i: u32 },
    RunExit { a: u32, n: u32, out: RunOutEv },
    StopEnter { a: u32, killed: bool },
    StopExit { a: u32, out: Out },
    Joined { a: u32, res: JoinRes },
    Panic { msg: String, op: Option<(Who, u32)> },
    DeadLetter { raw: u64, a: Option<u32>, msg_type: String, reason: String, operation: String, op: Option<(Who, u32)> },
    /// error-level tracing event emitted by rsactor / generated code (message text)
    ErrTrace { msg: String },
    JobStart { mid: u64 },
    JobEnd { mid: u64 },
    Signal { flag: u32 },
    /// scheduler reached quiescence (kind) at the end of phase n
    Phase { n: u32, kind: String },
    /// wait-for graph snapshot (run-local actor indices; raw ids for unknown)
    Graph { edges: Vec<(i64, i64)> },
    /// dead_letter_count() (test-utils) sampled
    DlCount { n: u64 },
    SpawnPanic { a: u32, msg: String },
    Spawned { a: u32, raw: u64, cap: Option<usize>, peer: bool },
}

#[derive(Clone, Debug, Serialize, Deserialize, PartialEq, Eq, Hash)]
pub struct Ev {
    pub seq: u64,
    /// virtual microseconds since the start of the run
    pub t: u64,
    /// scheduler decision index during which this was logged (poll identity)
    pub step: u64,
    /// gated task being polled (-1 = root)
    pub task: i64,
    pub k: EvKind,
}

pub enum Handle {
    Strong(ActorRef<SimActor>),
    Weak(ActorWeak<SimActor>),
    Tell(Box<dyn TellHandler<Work>>),
    Ask(Box<dyn AskHandler<Work, Reply>>),
    WTell(Box<dyn WeakTellHandler<Work>>),
    WAsk(Box<dyn WeakAskHandler<Work, Reply>>),
    Ctl(Box<dyn ActorControl>),
    WCtl(Box<dyn WeakActorControl>),
}

impl Handle {
    pub fn is_strong(&self) -> bool {
        matches!(self, Handle::Strong(_) | Handle::Tell(_) | Handle::Ask(_) | Handle::Ctl(_))
    }
    pub fn kind(&self) -> &'static str {
        match self {
            Handle::Strong(_) => "ref",
            Handle::Weak(_) => "weak",
            Handle::Tell(_) => "tellh",
            Handle::Ask(_) => "askh",
            Handle::WTell(_) => "wtellh",
            Handle::WAsk(_) => "waskh",
            Handle::Ctl(_) => "ctl",
            Handle::WCtl(_) => "wctl",
        }
    }
    pub fn duplicate(&self) -> Handle {
        match self {
            Handle::Strong(r) => Handle::Strong(r.clone()),
            Handle::Weak(w) => Handle::Weak(w.clone()),
            Handle::Tell(b) => Handle::Tell(b.clone()),
            Handle::Ask(b) => Handle::Ask(b.clone()),
            Handle::WTell(b) => Handle::WTell(b.clone()),
            Handle::WAsk(b) => Handle::WAsk(b.clone()),
            Handle::Ctl(b) => Handle::Ctl(b.clone()),
            Handle::WCtl(b) => Handle::WCtl(b.clone()),
        }
    }
}

#[derive(Default)]
pub struct Probes {
    pub burn_used: bool,
    pub budget_exhausted: u64,
    pub full_mailbox_waits: u64,
    pub cancels_fired: u64,
    pub timeouts_fired: u64,
}

pub struct World {
    pub log: Vec<Ev>,
    pub seq: u64,
    pub t0: tokio::time::Instant,
    /// handle table: a slot's handle *value* is shared by every operation performed through that slot
    /// (a caller keeps using its handle; per-handle state such as caches is therefore exercised)
    pub slots: BTreeMap<u32, (std::sync::Arc<Handle>, u32)>,
    pub flags: BTreeMap<u32, bool>,
    pub flag_waiters: BTreeMap<u32, Vec<Waker>>,
    /// next tick (virtual microseconds since the run began) of each actor's interval (Op::Tick)
    pub ticks: BTreeMap<u32, u64>,
    pub nonce: u64,
    pub cur_op: Option<(Who, u32)>,
    /// value of the process-wide dead-letter counter at this run's first snapshot (the log holds deltas)
    pub dl_base: Option<u64>,
    pub raw_ids: BTreeMap<u64, u32>,
    pub erase: Option<u64>,
    pub probes: Probes,
    pub max_log: usize,
    pub overflow: bool,
    pub closing: bool,
    pub dropped: u64,
}

thread_local! {
    pub static WORLD: RefCell<Option<World>> = const { RefCell::new(None) };
}

pub fn install(erase: Option<u64>, nonce_seed: u64) {
    WORLD.with(|w| {
        *w.borrow_mut() = Some(World {
            log: Vec::with_capacity(256),
            seq: 0,
            t0: tokio::time::Instant::now(),
            slots: BTreeMap::new(),
            flags: BTreeMap::new(),
            flag_waiters: BTreeMap::new(),
            nonce: nonce_seed | 1,
            cur_op: None,
            raw_ids: BTreeMap::new(),
            erase,
            probes: Probes::default(),
            dl_base: None,
            ticks: BTreeMap::new(),
            max_log: 12000,
            overflow: false,
            closing: false,
            dropped: 0,
        })
    });
}

pub fn uninstall() -> World {
    WORLD.with(|w| w.borrow_mut().take()).expect("world not installed")
}

pub fn with<R>(f: impl FnOnce(&mut World) -> R) -> R {
    WORLD.with(|w| {
        let mut b = w.borrow_mut();
        f(b.as_mut().expect("world not installed"))
    })
}

pub fn try_with<R>(f: impl FnOnce(&mut World) -> R) -> Option<R> {
    WORLD.with(|w| match w.try_borrow_mut() {
        Ok(mut b) => b.as_mut().map(f),
        Err(_) => None,
    })
}

pub fn log(k: EvKind) {
    let task = tokio::sim::current_task().map(|t| t as i64).unwrap_or(-1);
    let step = tokio::sim::step();
    let runaway = try_with(|w| {
        if w.closing {
            return false;
        }
        if w.log.len() >= w.max_log {
            w.overflow = true;
            w.dropped += 1;
            return w.dropped > 4_000;
        }
        let t = tokio::time::Instant::now().saturating_duration_since(w.t0).as_micros() as u64;
        w.seq += 1;
        let seq = w.seq;
        w.log.push(Ev { seq, t, step, task, k });
        false
    })
    .unwrap_or(false);
    // A task that keeps producing events without ever yielding (a busy loop inside one poll) can only
    // be stopped from inside: unwind it. The run is already marked inconclusive (history overflow).
    if runaway && task >= 0 && !std::thread::panicking() {
        try_with(|w| w.dropped = 0);
        panic!("HARNESS-RUNAWAY: task {task} produced more than 4000 events beyond the history limit without finishing");
    }
}

pub fn next_nonce() -> u64 {
    with(|w| {
        // xorshift: unique per run for < 2^64 draws, attributable
        let mut x = w.nonce;
        x ^= x << 13;
        x ^= x >> 7;
        x ^= x << 17;
        w.nonce = x;
        x
    })
}

pub fn actor_of_raw(raw: u64) -> Option<u32> {
    try_with(|w| w.raw_ids.get(&raw).copied()).flatten()
}

// ---------------------------------------------------------------------------------------------
// barriers

pub fn signal(flag: u32) {
    let ws = with(|w| {
        w.flags.insert(flag, true);
        w.flag_waiters.remove(&flag).unwrap_or_default()
    });
    log(EvKind::Signal { flag });
    for w in ws {
        w.wake();
    }
}

pub fn wait(flag: u32) -> impl std::future::Future<Output = ()> + Send {
    std::future::poll_fn(move |cx| {
        let set = with(|w| {
            if w.flags.get(&flag).copied().unwrap_or(false) {
                true
            } else {
                w.flag_waiters.entry(flag).or_default().push(cx.waker().clone());
                false
            }
        });
        if set {
            std::task::Poll::Ready(())
        } else {
            std::task::Poll::Pending
        }
    })
}

// ---------------------------------------------------------------------------------------------
// tracing capture: a minimal Subscriber installed as the thread default for the run

pub struct Capture;

struct FieldVisitor {
    message: String,
    actor_id: Option<u64>,
    msg_type: String,
    reason: String,
    operation: String,
}

impl tracing::field::Visit for FieldVisitor {
    fn record_debug(&mut self, field: &tracing::field::Field, value: &dyn std::fmt::Debug) {
        let s = format!("{value:?}");
        match field.name() {
            "message" => self.message = s,
            "dead_letter.reason" => self.reason = s,
            "message.type_name" => self.msg_type = s.trim_matches('"').to_string(),
            "dead_letter.operation" => self.operation = s.trim_matches('"').to_string(),
            _ => {}
        }
    }
    fn record_u64(&mut self, field: &tracing::field::Field, value: u64) {
        if field.name() == "actor.id" {
            self.actor_id = Some(value);
        }
    }
    fn record_str(&mut self, field: &tracing::field::Field, value: &str) {
        match field.name() {
            "message" => self.message = value.to_string(),
            "message.type_name" => self.msg_type = value.to_string(),
            "dead_letter.operation" => self.operation = value.to_string(),
            "dead_letter.reason" => self.reason = value.to_string(),
            _ => {}
        }
    }
}

impl tracing::Subscriber for Capture {
    fn enabled(&self, metadata: &tracing::Metadata<'_>) -> bool {
        // warn and error only; spans are accepted (feature `tracing` creates them) but ignored
        metadata.is_span() || *metadata.level() <= tracing::Level::WARN
    }
    fn new_span(&self, _span: &tracing::span::Attributes<'_>) -> tracing::span::Id {
        tracing::span::Id::from_u64(1)
    }
    fn record(&self, _span: &tracing::span::Id, _values: &tracing::span::Record<'_>) {}
    fn record_follows_from(&self, _span: &tracing::span::Id, _follows: &tracing::span::Id) {}
    fn event(&self, event: &tracing::Event<'_>) {
        let level = *event.metadata().level();
        if level > tracing::Level::WARN {
            return;
        }
        let mut v = FieldVisitor { message: String::new(), actor_id: None, msg_type: String::new(), reason: String::new(), operation: String::new() };
        event.record(&mut v);
        if v.message.starts_with("Dead letter") {
            let raw = v.actor_id.unwrap_or(0);
            let a = actor_of_raw(raw);
            // raw ids grow across the runs of one process: keep them only when unmapped
            let raw = if a.is_some() { 0 } else { raw };
            let op = try_with(|w| w.cur_op).flatten();
            log(EvKind::DeadLetter { raw, a, msg_type: v.msg_type, reason: v.reason, operation: v.operation, op });
        } else if level == tracing::Level::ERROR {
            log(EvKind::ErrTrace { msg: normalise_ids(&v.message) });
        }
    }
    fn enter(&self, _span: &tracing::span::Id) {}
    fn exit(&self, _span: &tracing::span::Id) {}
}

/// Rewrite `Type(#rawid)` to `Type(#a<idx>)` so that texts are stable across runs in one process.
pub fn normalise_ids(s: &str) -> String {
    let mut out = String::with_capacity(s.len());
    let b = s.as_bytes();
    let mut i = 0;
    while i < b.len() {
        if b[i] == b'#' && i > 0 && b[i - 1] == b'(' {
            let mut j = i + 1;
            while j < b.len() && b[j].is_ascii_digit() {
                j += 1;
            }
            if j > i + 1 && j < b.len() && b[j] == b')' {
                let raw: u64 = s[i + 1..j].parse().unwrap_or(0);
                match actor_of_raw(raw) {
                    Some(a) => out.push_str(&format!("#a{a}")),
                    None => out.push_str("#?"),
                }
                i = j;
                continue;
            }
        }
        out.push(b[i] as char);
        i += 1;
    }
    out
}
