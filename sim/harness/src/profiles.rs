//! Per-property profiles: which scenario families a check draws from, its budgets, which monitor
//! verdicts it reports, and what makes a run non-trivial for it.
use crate::families;
use crate::gen::{self, Knobs, G};
use crate::history::History;
use crate::model::*;
use crate::monitors::{Checked, Violation};

/// (scenarios, schedules per scenario)
pub fn budget(prop: &str, tier: &str) -> (u64, u64) {
    let quick = tier == "quick";
    match prop {
        "C04" | "C05" => {
            if quick {
                (64_800, 4)
            } else {
                (2_160_000, 6)
            }
        }
        "C08" => {
            if quick {
                (40_000, 4)
            } else {
                (1_000_000, 6)
            }
        }
        "C12" => {
            if quick {
                (60_000, 2)
            } else {
                (1_500_000, 4)
            }
        }
        "C18" => {
            if quick {
                (16_000, 2)
            } else {
                (100_000, 3)
            }
        }
        "C14" | "C15" | "C16" => {
            if quick {
                (60_000, 3)
            } else {
                (1_500_000, 4)
            }
        }
        "C20" => {
            if quick {
                (12_000, 3)
            } else {
                (300_000, 4)
            }
        }
        _ => {
            if quick {
                (80_000, 4)
            } else {
                (2_400_000, 6)
            }
        }
    }
}

pub fn select(prop: &str, v: Vec<Violation>) -> Vec<Violation> {
    match prop {
        // these claim "every other property keeps holding": any monitor verdict counts, re-tagged
        "C12" | "C16" | "C18" => v
            .into_iter()
            .map(|mut x| {
                if x.prop != prop {
                    x.sig = format!("{}:{}", x.prop, x.sig);
                    x.prop = prop.to_string();
                }
                x
            })
            .collect(),
        _ => v.into_iter().filter(|x| x.prop == prop).collect(),
    }
}

pub fn nontrivial(prop: &str, chk: &Checked) -> bool {
    chk.get(prop) > 0
}

pub fn extra_monitors(prop: &str, h: &History, _v: &mut Vec<Violation>, chk: &mut Checked) {
    if prop == "C12" {
        // a C12 run is non-trivial when the injected fault actually fired in some actor while
        // at least one other actor was running
        let crashed = h.actors.iter().filter(|a| a.panicked() || a.run_err().is_some() || matches!(a.start_exit(), Some((_, o)) if *o != crate::world::Out::Ok) || matches!(a.stop_exit(), Some((_, o)) if *o != crate::world::Out::Ok)).count();
        if crashed > 0 && h.actors.len() > crashed {
            chk.hit("C12");
        }
    }
}

fn knobs_for(prop: &str, g: &mut G) -> (&'static str, Knobs) {
    let faulty = g.chance(300);
    let mut k = if faulty { Knobs::faulty() } else { Knobs::base() };
    let mut fam = if faulty { "generic-faulty" } else { "generic" };
    match prop {
        "C01" => {
            k.clients = (1, 6);
            k.caps = vec![Some(1), Some(2), Some(3), Some(4), Some(8), Some(32)];
            k.w_tell += 20;
            k.w_drop += 6;
            k.w_clone += 4;
        }
        "C02" => {
            k.clients = (3, 6);
            k.caps = vec![Some(1), Some(1), Some(2), Some(2), Some(3), Some(8)];
            k.w_tell += 30;
            k.w_tellt += 10;
            k.w_stop += 3;
            k.end = 1;
            k.h_sleep += 30;
        }
        "C03" => {
            k = Knobs::faulty();
            fam = "generic-faulty";
            k.clients = (2, 8);
            k.actors = (1, 2);
            k.caps = vec![Some(1), Some(1), Some(2), Some(4), Some(32)];
            k.w_ask += 40;
            k.w_askt += 10;
            k.w_askjoin += 10;
            k.w_kill += 4;
            k.w_stop += 4;
        }
        "C04" | "C05" => {
            k = Knobs::faulty();
            fam = "generic-faulty";
            k.run_scripts = 600;
            k.start_steps = 600;
            k.stop_steps = 600;
        }
        "C06" => {
            k = Knobs::faulty();
            fam = "generic-kill";
            k.h_panic = 0;
            k.start_panic = 0;
            k.run_panic = 0;
            k.stop_panic = 0;
            k.start_fail = 0;
            k.run_err = 50;
            k.w_kill = 14;
            k.caps = vec![Some(1), Some(4), Some(32), Some(130)];
            k.w_tell += 40;
            k.h_sleep += 40;
        }
        "C07" => {
            k = Knobs::base();
            fam = "generic-handles";
            k.w_clone += 12;
            k.w_drop += 14;
            k.w_weak += 12;
            k.w_erase += 10;
            k.h_cloneself += 6;
            k.w_stop = if g.chance(500) { 0 } else { 3 };
            k.end = if g.chance(500) { 2 } else { 0 };
            k.h_stopself = 0;
            k.run_scripts = 500;
        }
        "C08" => {
            k.run_scripts = 1000;
            k.caps = vec![Some(1), Some(4), Some(32), Some(130), Some(256)];
            k.w_tell += 30;
            k.sleeps = vec![1, 2, 3, 5];
            k.w_sleep += 10;
            if faulty {
                k.run_err = 300;
            }
        }
        "C09" => {
            k.caps = vec![Some(1), Some(2), Some(3), Some(4), Some(8), None];
            k.clients = (2, 6);
            k.w_tell += 60;
            k.w_tellt += 10;
            k.h_sleep += 60;
            k.h_steps = 700;
        }
        "C10" => {
            k.w_tellt += 30;
            k.w_askt += 40;
            k.caps = vec![Some(1), Some(2), Some(32)];
            k.h_sleep += 60;
            k.h_steps = 800;
            k.timeouts = vec![0, 1, 2, 3, 5, 10, 50, 3_600_000, FOREVER];
            k.sleeps = vec![1, 2, 3, 5, 10, 50];
            if faulty {
                k.w_kill += 4;
            }
        }
        "C11" => {
            k.w_alive += 20;
            k.w_ident += 10;
            k.w_weak += 14;
            k.w_erase += 10;
            k.w_clone += 6;
            k.w_drop += 8;
        }
        "C20" => {
            k.w_metrics = 25;
            k.h_burn = 6;
            k.actors = (1, 2);
        }
        "C14" | "C15" => {
            // acyclic-by-construction traffic with many nested asks: no panic may ever be raised
            k.actors = (2, 3);
            k.h_steps = 800;
            k.h_ask_peer = 40;
            k.h_tell_peer = 10;
            k.h_join = 12;
            k.w_askt += 6;
            k.w_cancel += 4;
        }
        "C13" => {
            k = Knobs::faulty();
            fam = "generic-faulty";
            k.w_stop += 6;
            k.w_kill += 4;
            k.w_tellt += 10;
            k.w_askt += 14;
            k.h_sleep += 30;
        }
        _ => {}
    }
    (fam, k)
}

/// seed of the scenario generator for run `index` (C12 shares one base scenario per block of indices)
pub fn scenario_seed(prop: &str, seed: u64, index: u64) -> u64 {
    if prop == "C12" {
        crate::mix(seed ^ 0xC12, index / families::CRASH_POINTS_PER_BASE)
    } else {
        crate::mix(seed, index)
    }
}

pub fn scenario(prop: &str, tier: &str, sseed: u64, index: u64) -> (&'static str, Scenario) {
    if prop == "C12" {
        if index % 8 == 7 {
            let mut g = G::new(crate::mix(sseed, index));
            return ("deadlock-panic-then-followup", families::cycle_then_followup(&mut g));
        }
        if index % 8 == 3 {
            // asks that end in every possible way - including the asker unwinding with its ask in flight - followed by
            // the callee asking back: no survivor may be hit by a deadlock report
            let mut g = G::new(crate::mix(sseed, index));
            return ("asks-ending-every-way-then-ask-back", families::temporal_acyclic(&mut g));
        }
        let (sc, _, _) = families::crash_point_scenario(sseed, index);
        return ("crash-point-enumeration", sc);
    }
    let mut g = G::new(sseed);
    let _ = tier;
    // rare and expensive (a second of real time per run): handlers with a whole-second duration
    if prop == "C20" && index % 3000 == 5 {
        return ("long-handler", families::long_handler(&mut g, true));
    }
    if prop == "C18" && index % 4000 == 11 {
        return ("long-handler", families::long_handler(&mut g, false));
    }
    // C16 and C18 re-use the scenarios of the messaging / lifecycle properties
    if prop == "C16" || prop == "C18" {
        const POOL: [&str; 12] = ["C01", "C02", "C03", "C04", "C05", "C06", "C07", "C08", "C09", "C10", "C11", "C13"];
        let p = POOL[g.below(POOL.len() as u64) as usize];
        return scenario(p, tier, sseed ^ 0x00C1_6C18, index);
    }
    // a share of every check's runs comes from the structured families of that property
    let structured = g.below(100);
    match prop {
        "C04" | "C05" if structured < 50 => return ("lifecycle-grid", families::lifecycle_grid(&mut g, index)),
        "C06" if structured < 50 => return ("kill-backlog", families::kill_backlog(&mut g)),
        "C03" if structured < 35 => return ("askers-vs-ending", families::askers_vs_ending(&mut g)),
        "C09" if structured < 50 => return ("stalled-capacity", families::stalled_capacity(&mut g)),
        "C10" if structured < 50 => return ("deadline-alignment", families::deadline_alignment(&mut g)),
        "C08" if structured < 50 => return ("on_run-alignment", families::on_run_alignment(&mut g)),
        "C07" | "C11" if structured < 40 => return ("handle-walk", families::handle_walk(&mut g)),
        "C07" if structured < 52 => return ("abandoned-ops", families::abandoned_ops(&mut g)),
        "C07" | "C11" if structured < 60 => return ("upgrade-while-queued", families::upgrade_while_queued(&mut g)),
        "C07" if structured < 66 => return ("abandoned-ask_join", families::abandoned_ask_join(&mut g)),
        "C02" | "C09" if (50..58).contains(&structured) => return ("abandoned-ops", families::abandoned_ops(&mut g)),
        "C02" if structured < 30 => return ("queued-senders", families::queued_senders(&mut g)),
        "C01" if structured < 25 => return ("send-then-drop", families::send_then_drop(&mut g)),
        "C01" | "C02" | "C08" if (60..66).contains(&structured) => return ("interval-under-backlog", families::interval_under_backlog(&mut g)),
        "C13" if structured < 30 => return ("askers-vs-ending", families::askers_vs_ending(&mut g)),
        "C20" if structured < 60 => return ("metrics", families::metrics_family(&mut g)),
        "C14" if structured < 60 => return ("forced-cycle", families::forced_cycle(&mut g, index)),
        "C14" if structured < 85 => return ("racy-cycles", families::racy_cycles(&mut g)),
        "C15" if structured < 45 => return ("temporal-acyclic", families::temporal_acyclic(&mut g)),
        "C15" if structured < 65 => return ("racy-cycles", families::racy_cycles(&mut g)),
        "C15" if structured < 75 => return ("forced-cycle", families::forced_cycle(&mut g, index)),
        _ => {}
    }
    let (fam, mut k) = knobs_for(prop, &mut g);
    if tier == "thorough" && g.chance(300) {
        // deeper bounds in the thorough tier: more actors, clients and operations per client,
        // larger capacities (section 2.4 bounds: <= 6 actors, <= 8 clients, <= 60 operations)
        k.actors = (k.actors.0, (k.actors.1 + 2).min(5));
        k.clients = (k.clients.0, 8);
        k.ops = (k.ops.0, 12);
        if !k.caps.contains(&Some(130)) && g.chance(300) {
            k.caps.push(Some(130));
        }
        let name = match fam {
            "generic" => "generic-large",
            "generic-faulty" => "generic-faulty-large",
            "generic-kill" => "generic-kill-large",
            "generic-handles" => "generic-handles-large",
            _ => "generic-large",
        };
        return (name, gen::generic(&mut g, &k));
    }
    (fam, gen::generic(&mut g, &k))
}
