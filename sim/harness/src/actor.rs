//! The scripted actor: one actor type whose behaviour is data (DESIGN.md 2.5).
use crate::model::*;
use crate::ops::{exec_script, Flow, SelfRef};
use crate::world::{self, log, EvKind, Out, RunOutEv, Who};
use rsactor::{message_handlers, Actor, ActorRef, ActorWeak, Message};
use std::sync::Arc;

#[derive(Debug, Clone, PartialEq, Eq)]
pub struct SimError(pub i64);

/// hand-written Message impl
pub struct Work(pub Msg);
/// macro-generated, returns Result
pub struct WorkR(pub Msg);
/// macro-generated, returns JoinHandle
pub struct JoinWork(pub Msg);

#[derive(Debug, Clone, PartialEq, Eq)]
pub struct Reply {
    pub mid: u64,
    pub nonce: u64,
    pub idx: u64,
}

/// Error side of the macro-generated `Result` handler: carries the reply so that asks stay
/// attributable; `Display` is what the generated `on_tell_result` logging requires.
#[derive(Debug, Clone, PartialEq, Eq)]
pub struct ReplyErr(pub Reply);
impl std::fmt::Display for ReplyErr {
    fn fmt(&self, f: &mut std::fmt::Formatter<'_>) -> std::fmt::Result {
        write!(f, "scripted-error mid={}", self.0.mid)
    }
}

pub struct Init {
    pub a: u32,
    pub spec: Arc<ActorSpec>,
}

pub struct SimActor {
    pub a: u32,
    pub spec: Arc<ActorSpec>,
    pub journal: Vec<String>,
    pub runs: u32,
    pub handled: u64,
}

/// Logs the exit of a hook even when it unwinds or its future is dropped.
struct ExitGuard<F: FnMut(Out)> {
    done: bool,
    f: F,
}
impl<F: FnMut(Out)> ExitGuard<F> {
    fn finish(&mut self, out: Out) {
        self.done = true;
        (self.f)(out);
    }
}
impl<F: FnMut(Out)> Drop for ExitGuard<F> {
    fn drop(&mut self) {
        if !self.done {
            let out = if std::thread::panicking() { Out::Panic } else { Out::Dropped };
            (self.f)(out);
        }
    }
}

impl Actor for SimActor {
    type Args = Init;
    type Error = SimError;

    async fn on_start(args: Init, actor_ref: &ActorRef<Self>) -> Result<Self, SimError> {
        let a = args.a;
        log(EvKind::StartEnter { a });
        let mut g = ExitGuard { done: false, f: move |out| log(EvKind::StartExit { a, out }) };
        let mut me = SimActor { a, spec: args.spec.clone(), journal: Vec::new(), runs: 0, handled: 0 };
        match exec_script(Who::Start(a), &args.spec.on_start, SelfRef::Strong(actor_ref)).await {
            Flow::Continue => {}
            Flow::Fail(c) => {
                g.finish(Out::Err(c));
                return Err(SimError(c));
            }
        }
        me.journal.push("start".into());
        g.finish(Out::Ok);
        Ok(me)
    }

    async fn on_run(&mut self, actor_weak: &ActorWeak<Self>) -> Result<bool, SimError> {
        let a = self.a;
        let n = self.runs;
        self.runs += 1;
        log(EvKind::RunEnter { a, n });
        self.journal.push(format!("run:{n}"));
        let mut done = false;
        struct G<'x>(&'x mut bool, u32, u32);
        impl Drop for G<'_> {
            fn drop(&mut self) {
                if !*self.0 {
                    let out = if std::thread::panicking() { RunOutEv::Panic } else { RunOutEv::Dropped };
                    log(EvKind::RunExit { a: self.1, n: self.2, out });
                }
            }
        }
        let g = G(&mut done, a, n);
        let spec = self.spec.clone();
        let (steps, out): (&[Op], RunOut) = match spec.on_run.get(n as usize) {
            Some(rs) => (&rs.steps, rs.out.clone()),
            None => (&[], RunOut::False),
        };
        for (i, op) in steps.iter().enumerate() {
            log(EvKind::RunStep { a, n, i: i as u32 });
            match crate::ops::exec(Who::Run(a, n), i as u32, op, SelfRef::Weak(actor_weak)).await {
                Flow::Continue => {}
                Flow::Fail(c) => {
                    *g.0 = true;
                    log(EvKind::RunExit { a, n, out: RunOutEv::Err(c) });
                    return Err(SimError(c));
                }
            }
        }
        *g.0 = true;
        match out {
            RunOut::True => {
                log(EvKind::RunExit { a, n, out: RunOutEv::True });
                Ok(true)
            }
            RunOut::False => {
                log(EvKind::RunExit { a, n, out: RunOutEv::False });
                Ok(false)
            }
            RunOut::Err(c) => {
                log(EvKind::RunExit { a, n, out: RunOutEv::Err(c) });
                Err(SimError(c))
            }
        }
    }

    async fn on_stop(&mut self, actor_weak: &ActorWeak<Self>, killed: bool) -> Result<(), SimError> {
        let a = self.a;
        log(EvKind::StopEnter { a, killed });
        self.journal.push(format!("stop:{killed}"));
        let mut g = ExitGuard { done: false, f: move |out| log(EvKind::StopExit { a, out }) };
        let spec = self.spec.clone();
        match exec_script(Who::Stop(a), &spec.on_stop, SelfRef::Weak(actor_weak)).await {
            Flow::Continue => {}
            Flow::Fail(c) => {
                g.finish(Out::Err(c));
                return Err(SimError(c));
            }
        }
        g.finish(Out::Ok);
        Ok(())
    }
}

impl SimActor {
    async fn run_handler(&mut self, m: &Msg, actor_ref: &ActorRef<Self>) -> Reply {
        let a = self.a;
        let mid = m.id;
        log(EvKind::HEnter { a, mid });
        self.journal.push(format!("h:{mid}"));
        let idx = self.handled;
        self.handled += 1;
        let cell = Arc::new(std::sync::atomic::AtomicU64::new(0));
        let c2 = cell.clone();
        let mut g = ExitGuard {
            done: false,
            f: move |out| log(EvKind::HExit { a, mid, nonce: c2.load(std::sync::atomic::Ordering::Relaxed), out }),
        };
        let _ = exec_script(Who::Handler(a, mid), &m.steps, SelfRef::Strong(actor_ref)).await;
        let nonce = world::next_nonce();
        cell.store(nonce, std::sync::atomic::Ordering::Relaxed);
        g.finish(Out::Ok);
        Reply { mid, nonce, idx }
    }
}

// Hand-written Message impl with an on_tell_result override (observes the tell-only hook).
impl Message<Work> for SimActor {
    type Reply = Reply;
    async fn handle(&mut self, msg: Work, actor_ref: &ActorRef<Self>) -> Reply {
        self.run_handler(&msg.0, actor_ref).await
    }
    fn on_tell_result(result: &Reply, actor_ref: &ActorRef<Self>) {
        let a = world::actor_of_raw(actor_ref.identity().id).unwrap_or(u32::MAX);
        log(EvKind::TellResult { a, mid: result.mid, err: false });
    }
}

#[message_handlers]
impl SimActor {
    #[handler]
    async fn handle_work_r(&mut self, msg: WorkR, actor_ref: &ActorRef<Self>) -> Result<Reply, ReplyErr> {
        let err = matches!(msg.0.kind, MsgKind::WorkR { err: true });
        let r = self.run_handler(&msg.0, actor_ref).await;
        if err {
            Err(ReplyErr(r))
        } else {
            Ok(r)
        }
    }

    #[handler]
    async fn handle_join_work(&mut self, msg: JoinWork, actor_ref: &ActorRef<Self>) -> tokio::task::JoinHandle<u64> {
        let (delay_ms, out) = match &msg.0.kind {
            MsgKind::Join { delay_ms, out } => (*delay_ms, out.clone()),
            _ => (0, JobOut::Value),
        };
        let r = self.run_handler(&msg.0, actor_ref).await;
        let mid = r.mid;
        tokio::sim::name_next_spawn(format!("job:{mid}"));
        let job_out = out.clone();
        let h = tokio::spawn(async move {
            log(EvKind::JobStart { mid });
            if delay_ms > 0 {
                tokio::time::sleep(std::time::Duration::from_millis(delay_ms)).await;
            }
            if job_out == JobOut::Panic {
                panic!("scripted job panic mid={mid}");
            }
            log(EvKind::JobEnd { mid });
            mid.wrapping_mul(1_000_003)
        });
        if out == JobOut::Abort {
            h.abort();
        }
        h
    }
}

/// A second actor type using the trait's default `on_run`/`on_stop` and `#[derive(Actor)]`-like
/// minimal shape is not needed for the monitors; `plain` specs simply have empty scripts.
pub fn job_value(mid: u64) -> u64 {
    mid.wrapping_mul(1_000_003)
}
