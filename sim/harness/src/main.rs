mod actor;
mod exec;
mod model;
mod ops;
mod world;

use model::*;

fn install_panic_hook() {
    std::panic::set_hook(Box::new(|info| {
        let msg = if let Some(s) = info.payload().downcast_ref::<String>() {
            s.clone()
        } else if let Some(s) = info.payload().downcast_ref::<&str>() {
            s.to_string()
        } else {
            "<non-string panic>".to_string()
        };
        if tokio::sim::current_task().is_some() {
            // a panic inside a simulated task is part of the simulated behaviour
            world::log(world::EvKind::Panic { msg: world::normalise_ids(&msg) });
        } else {
            eprintln!("HARNESS PANIC: {msg} at {:?}", info.location());
        }
    }));
}

fn main() {
    install_panic_hook();
    let sc = Scenario {
        actors: vec![ActorSpec { cap: Some(2), ..Default::default() }],
        clients: vec![
            vec![Op::Tell { h: 0, m: Msg::work(1) }, Op::Ask { h: 0, m: Msg::with(2, vec![Op::Sleep(5)]) }, Op::Drop { h: 0 }],
            vec![Op::AskT { h: 0, m: Msg::work(3), ms: 2 }],
        ],
        probes: vec![],
        erase: None,
    };
    for seed in 0..3 {
        let cfg = exec::SchedCfg { seed, strategy: exec::StrategyCfg::Uniform, spurious_permille: 0, max_steps: 10000, replay: None };
        let r = exec::execute(&sc, &cfg);
        println!("--- seed {seed} phases {:?} decisions {:?}", r.phases, r.rep.decisions);
        for e in &r.log {
            println!("{}", serde_json::to_string(e).unwrap());
        }
    }
}
