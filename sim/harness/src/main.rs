mod actor;
mod exec;
mod families;
mod gen;
mod history;
mod minimise;
mod model;
mod monitors;
mod ops;
mod profiles;
mod world;

use exec::{RunResult, SchedCfg};
use model::*;
use monitors::Violation;
use serde::{Deserialize, Serialize};
use std::collections::{BTreeMap, BTreeSet};
use std::hash::{Hash, Hasher};

pub fn features() -> Vec<&'static str> {
    let mut v = Vec::new();
    if cfg!(feature = "f_tracing") {
        v.push("tracing");
    }
    if cfg!(feature = "f_metrics") {
        v.push("metrics");
    }
    if cfg!(feature = "f_test_utils") {
        v.push("test-utils");
    }
    if cfg!(feature = "f_deadlock") {
        v.push("deadlock-detection");
    }
    v
}

fn install_panic_hook() {
    std::panic::set_hook(Box::new(|info| {
        let msg = if let Some(s) = info.payload().downcast_ref::<String>() {
            s.clone()
        } else if let Some(s) = info.payload().downcast_ref::<&str>() {
            s.to_string()
        } else {
            "<non-string panic>".to_string()
        };
        if tokio::sim::current_task().is_some() {
            // a panic inside a simulated task is part of the simulated behaviour
            let op = world::try_with(|w| w.cur_op).flatten();
            world::log(world::EvKind::Panic { msg: world::normalise_ids(&msg), op });
        } else if msg.contains("Mailbox capacity must be greater than 0") {
            // spawn_with_mailbox_capacity(0) in the root future: caught and logged by exec
        } else {
            eprintln!("HARNESS PANIC: {msg} at {:?}", info.location());
        }
    }));
}

pub fn h64<T: Hash>(t: &T) -> u64 {
    let mut h = std::collections::hash_map::DefaultHasher::new();
    t.hash(&mut h);
    h.finish()
}

/// digest of the whole history (determinism / replay comparison)
pub fn log_digest(r: &RunResult) -> u64 {
    h64(&(&r.log, &r.rep.decisions))
}

/// order fingerprint: which events happened in which order, without times
pub fn order_fp(r: &RunResult) -> u64 {
    let mut h = std::collections::hash_map::DefaultHasher::new();
    for e in &r.log {
        e.task.hash(&mut h);
        e.k.hash(&mut h);
    }
    h.finish()
}

pub fn mix(seed: u64, i: u64) -> u64 {
    let mut r = tokio::sim::Rng(seed ^ i.wrapping_mul(0x9E37_79B9_7F4A_7C15));
    r.next();
    r.next()
}

pub const DEFAULT_CAP: usize = 32;

pub struct Judged {
    pub res: RunResult,
    pub violations: Vec<Violation>,
    pub checked: monitors::Checked,
}

fn monitors_for(prop: &str, sc: &Scenario, res: &RunResult) -> (Vec<Violation>, monitors::Checked) {
    let h = history::History::build(sc, res, DEFAULT_CAP);
    let (mut v, mut chk) = monitors::run_all(&h);
    profiles::extra_monitors(prop, &h, &mut v, &mut chk);
    (v, chk)
}

/// canonical per-event hashes: independent of feature-only bookkeeping events and of the routing label
pub fn canon_hashes(r: &RunResult, keep_via: bool) -> Vec<(u64, u64)> {
    let mut out = Vec::with_capacity(r.log.len());
    for e in &r.log {
        let k = match &e.k {
            world::EvKind::DlCount { .. } | world::EvKind::Graph { .. } => continue,
            world::EvKind::Inv { who, k, op, a, mid, us, via, budget } => world::EvKind::Inv { who: *who, k: *k, op: *op, a: *a, mid: *mid, us: *us, via: if keep_via { via.clone() } else { String::new() }, budget: *budget },
            other => other.clone(),
        };
        out.push((e.step, h64(&(e.t, e.step, e.task, &k))));
    }
    out
}

/// Lock-step comparison of two runs of the same scenario under the same decision list.
/// Returns Err(text) when an observable difference occurs while the ready sets still agree,
/// Ok(true) when the runs are identical, Ok(false) when they are incomparable (ready sets diverged first).
pub fn lockstep(a: &RunResult, a_h: &[(u64, u64)], b: &RunResult, b_h: &[(u64, u64)], ready_a: &[u32], ready_b: &[u32]) -> Result<bool, (u64, String)> {
    let _ = (a, b);
    let n = ready_a.len().min(ready_b.len());
    let mut d_ready = (0..n).find(|i| ready_a[*i] != ready_b[*i]).map(|i| i as u64);
    if d_ready.is_none() && ready_a.len() != ready_b.len() {
        d_ready = Some(n as u64);
    }
    let m = a_h.len().min(b_h.len());
    let d_log = (0..m).find(|i| a_h[*i] != b_h[*i]).or(if a_h.len() != b_h.len() { Some(m) } else { None });
    match d_log {
        None => Ok(d_ready.is_none()),
        Some(i) => {
            let step = a_h.get(i).map(|x| x.0).unwrap_or(u64::MAX).min(b_h.get(i).map(|x| x.0).unwrap_or(u64::MAX));
            // events of step s (1-based) were produced by decision s-1; the ready sets are known equal
            // for every decision < d_ready
            match d_ready {
                Some(d) if step > d => Ok(false),
                _ => Err((step, format!("histories differ at canonical event {i} (poll {step}) while the ready sets of both runs still agreed"))),
            }
        }
    }
}

/// Execute and judge one (scenario, schedule).
pub fn judge(prop: &str, sc: &Scenario, cfg: &SchedCfg) -> Judged {
    if prop == "C16" {
        return judge_c16(sc, cfg);
    }
    let res = exec::execute(sc, cfg);
    let (violations, checked) = monitors_for(prop, sc, &res);
    let violations = profiles::select(prop, violations);
    Judged { res, violations, checked }
}

/// C16: the same scenario run on direct references and run with every operation routed through an
/// arbitrarily chosen type-erased wrapper, under the same decision list.
fn judge_c16(sc: &Scenario, cfg: &SchedCfg) -> Judged {
    let mut direct_sc = sc.clone();
    direct_sc.erase = None;
    let mut erased_sc = sc.clone();
    if erased_sc.erase.is_none() {
        erased_sc.erase = Some(cfg.seed ^ 0xE7A5_ED00_1234_0001);
    }
    let mut dcfg = cfg.clone();
    dcfg.replay = None;
    let direct = exec::execute(&direct_sc, &dcfg);
    let mut ecfg = cfg.clone();
    ecfg.replay = Some(direct.rep.decisions.clone());
    let erased = exec::execute(&erased_sc, &ecfg);
    let (v, mut chk) = monitors_for("C16", &erased_sc, &erased);
    let mut violations = profiles::select("C16", v);
    let (dh, eh) = (canon_hashes(&direct, false), canon_hashes(&erased, false));
    if !direct.inconclusive() && !erased.inconclusive() {
        match lockstep(&direct, &dh, &erased, &eh, &direct.rep.ready_hashes, &erased.rep.ready_hashes) {
            Ok(true) => {
                chk.hit("C16");
            }
            Ok(false) => {
                chk.hit("C16-incomparable");
            }
            Err((step, why)) => {
                chk.hit("C16");
                // show both sides of the first difference
                let i = (0..dh.len().min(eh.len())).find(|i| dh[*i] != eh[*i]).unwrap_or(dh.len().min(eh.len()));
                let dl: Vec<&world::Ev> = direct.log.iter().filter(|e| !matches!(e.k, world::EvKind::DlCount { .. } | world::EvKind::Graph { .. })).collect();
                let el: Vec<&world::Ev> = erased.log.iter().filter(|e| !matches!(e.k, world::EvKind::DlCount { .. } | world::EvKind::Graph { .. })).collect();
                let text = format!("{why}: direct run has {:?}, erased run has {:?}", dl.get(i).map(|e| &e.k), el.get(i).map(|e| &e.k));
                violations.push(Violation { prop: "C16".into(), sig: "differential".into(), text, seq: step });
            }
        }
    }
    Judged { res: erased, violations, checked: chk }
}

#[derive(Serialize, Deserialize)]
pub struct ReplayFile {
    pub property: String,
    pub signature: String,
    pub engine: String,
    pub features: Vec<String>,
    pub seed: u64,
    pub run_index: u64,
    pub scenario: Scenario,
    pub sched: SchedCfg,
    pub violation: Violation,
    pub log_digest: String,
    pub minimised: bool,
    pub history: Vec<world::Ev>,
    /// the execution that preceded the violating one in the same process, for violations of process-wide state (actor ids
    /// are allocated from one counter per process): replay runs it first. Absent for everything else.
    #[serde(default, skip_serializing_if = "Option::is_none")]
    pub prelude: Option<Prelude>,
}

#[derive(Serialize, Deserialize, Clone)]
pub struct Prelude {
    pub scenario: Scenario,
    pub sched: SchedCfg,
}

#[derive(Serialize, Default)]
struct Stats {
    property: String,
    tier: String,
    seed: u64,
    shard: u64,
    nshards: u64,
    features: Vec<String>,
    evaluations: u64,
    scenarios: u64,
    nontrivial: u64,
    inconclusive: u64,
    quiescent_with_pending: u64,
    all_done: u64,
    decisions_total: u64,
    virtual_ms_total: u64,
    checked: BTreeMap<String, u64>,
    faults_fired: BTreeMap<String, u64>,
    strategies: BTreeMap<String, u64>,
    families: BTreeMap<String, u64>,
    probes: BTreeMap<String, u64>,
    violations: Vec<serde_json::Value>,
    samples: Vec<serde_json::Value>,
    wall_s: f64,
    table_check: Option<u32>,
    extra: BTreeMap<String, serde_json::Value>,
}

fn count_faults(sc: &Scenario, r: &RunResult, st: &mut Stats) {
    use world::{EvKind, Out, RunOutEv};
    let mut inc = |k: &str, n: u64| {
        if n > 0 {
            *st.faults_fired.entry(k.to_string()).or_insert(0) += n;
        }
    };
    let mut last_drop = 0;
    for e in &r.log {
        match &e.k {
            EvKind::Panic { msg, .. } => {
                if msg.contains("Deadlock detected") {
                    inc("deadlock_panic", 1)
                } else {
                    inc("panic_in_hook", 1)
                }
            }
            EvKind::StartExit { out: Out::Err(_), .. } => inc("on_start_error", 1),
            EvKind::StopExit { out: Out::Err(_), .. } => inc("on_stop_error", 1),
            EvKind::RunExit { out: RunOutEv::Err(_), .. } => inc("on_run_error", 1),
            EvKind::RunExit { out: RunOutEv::Dropped, .. } => inc("on_run_cancelled_by_message", 1),
            EvKind::Inv { op: world::OpTag::Kill, .. } => inc("kill", 1),
            EvKind::Inv { op: world::OpTag::Stop, .. } => inc("stop", 1),
            EvKind::Cancelled { .. } => inc("operation_cancelled", 1),
            EvKind::Ret { res: world::Res::ErrTimeout { .. }, .. } => inc("timeout_fired", 1),
            EvKind::Ret { res: world::Res::ErrSend, .. } => inc("send_to_closed_mailbox", 1),
            EvKind::Ret { res: world::Res::ErrRecv, .. } => inc("reply_dropped", 1),
            EvKind::Ret { res: world::Res::ErrJoinPanic, .. } | EvKind::Ret { res: world::Res::ErrJoinCancelled, .. } => inc("joined_task_failed", 1),
            EvKind::StopEnter { killed: false, .. } => last_drop += 1,
            EvKind::DeadLetter { .. } => inc("dead_letter", 1),
            _ => {}
        }
    }
    let _ = (sc, last_drop);
    inc("spurious_poll", r.rep.spurious_fired);
    inc("send_descheduled_between_reserve_and_push", r.rep.sends_split);
    inc("call_dropped_unpolled", r.log.iter().filter(|e| matches!(e.k, EvKind::Cancelled { polls: 0, .. })).count() as u64);
    inc("budget_exhaustion", r.probes.budget_exhausted);
    inc("full_mailbox_wait", r.probes.full_mailbox_waits);
    if r.phases.iter().any(|q| *q == tokio::sim::Quiescence::Quiescent) && !r.pending_tasks.is_empty() {
        inc("quiescent_with_live_tasks", 1);
    }
}

fn arg<'a>(args: &'a [String], name: &str) -> Option<&'a str> {
    args.iter().position(|a| a == name).and_then(|i| args.get(i + 1)).map(|s| s.as_str())
}

fn write_replay(dir: &str, rf: &ReplayFile) -> String {
    std::fs::create_dir_all(dir).ok();
    let path = format!("{dir}/{}-{}-{:016x}-{}.json", rf.property, rf.signature.replace([':', '/', ' '], "_"), rf.seed, rf.run_index);
    std::fs::write(&path, serde_json::to_string_pretty(rf).unwrap()).expect("write replay");
    path
}

fn cmd_run(args: &[String]) -> i32 {
    let prop = arg(args, "--prop").expect("--prop").to_string();
    let tier = arg(args, "--tier").unwrap_or("quick").to_string();
    let seed: u64 = arg(args, "--seed").and_then(|s| s.parse().ok()).unwrap_or(20260101);
    let shard: u64 = arg(args, "--shard").and_then(|s| s.parse().ok()).unwrap_or(0);
    let nshards: u64 = arg(args, "--nshards").and_then(|s| s.parse().ok()).unwrap_or(1);
    let out = arg(args, "--out").unwrap_or("/dev/stdout").to_string();
    let replay_dir = arg(args, "--replay-dir").unwrap_or("../replays").to_string();
    let scenarios: u64 = arg(args, "--scenarios").and_then(|s| s.parse().ok()).unwrap_or_else(|| profiles::budget(&prop, &tier).0);
    let scheds: u64 = arg(args, "--schedules").and_then(|s| s.parse().ok()).unwrap_or_else(|| profiles::budget(&prop, &tier).1);
    let max_viol: usize = arg(args, "--max-violations").and_then(|s| s.parse().ok()).unwrap_or(3);
    let t0 = std::time::Instant::now();
    let mut st = Stats { property: prop.clone(), tier: tier.clone(), seed, shard, nshards, features: features().iter().map(|s| s.to_string()).collect(), ..Default::default() };
    match exec::accessor_table_check() {
        Ok(n) => st.table_check = Some(n),
        Err(why) => {
            if prop == "C05" {
                let v = Violation { prop: "C05".into(), sig: "accessor-table".into(), text: why.clone(), seq: 0 };
                st.violations.push(serde_json::json!({"violation": v, "replay": serde_json::Value::Null, "table": true}));
            }
        }
    }
    let mut fps: BTreeSet<u64> = BTreeSet::new();
    let mut seen_sigs: BTreeSet<String> = BTreeSet::new();
    let mut grid_cells: BTreeSet<u64> = BTreeSet::new();
    let mut i = shard;
    // (scenario index, schedule index) of the execution before the current one in this process
    let mut last_run: Option<(u64, u64)> = None;
    'outer: while i < scenarios {
        let sseed = profiles::scenario_seed(&prop, seed, i);
        let (family, sc) = profiles::scenario(&prop, &tier, sseed, i);
        st.scenarios += 1;
        *st.families.entry(family.to_string()).or_insert(0) += 1;
        if family == "lifecycle-grid" {
            grid_cells.insert(i % 216);
        }
        for j in 0..scheds {
            let cfg = gen::gen_sched(mix(mix(seed, i), 1000 + j));
            let jd = judge(&prop, &sc, &cfg);
            let prev_run = last_run.replace((i, j));
            st.evaluations += 1;
            *st.strategies.entry(cfg.strategy.name().to_string()).or_insert(0) += 1;
            st.decisions_total += jd.res.rep.steps;
            if jd.res.inconclusive() {
                st.inconclusive += 1;
            }
            match jd.res.phases.last() {
                Some(tokio::sim::Quiescence::AllDone) => st.all_done += 1,
                Some(tokio::sim::Quiescence::Quiescent) => st.quiescent_with_pending += 1,
                _ => {}
            }
            // virtual time actually simulated (the sentinel jump at quiescence is not counted)
            let vt = jd.res.log.iter().filter(|e| !matches!(e.k, world::EvKind::Phase { .. } | world::EvKind::Graph { .. } | world::EvKind::DlCount { .. })).map(|e| e.t).filter(|t| *t < 5_000_000_000_000).max().unwrap_or(0);
            st.virtual_ms_total += vt / 1000;
            for (k, v) in &jd.checked.0 {
                *st.checked.entry(k.to_string()).or_insert(0) += v;
            }
            count_faults(&sc, &jd.res, &mut st);
            let nontrivial = profiles::nontrivial(&prop, &jd.checked);
            if nontrivial {
                st.nontrivial += 1;
                fps.insert(h64(&(&jd.res.rep.decisions, order_fp(&jd.res))));
            }
            if st.samples.len() < 3 && nontrivial && shard == 0 {
                st.samples.push(serde_json::json!({"family": family, "run_index": i, "schedule_index": j, "scenario": sc, "strategy": cfg.strategy, "decisions": jd.res.rep.decisions, "events": jd.res.log.len()}));
            }
            if !jd.violations.is_empty() {
                let v0 = jd.violations[0].clone();
                let key = format!("{}:{}", v0.prop, v0.sig);
                if v0.sig.ends_with("duplicate-id") && prev_run.is_some() && seen_sigs.insert(key.clone()) {
                    // process-wide state: the id was handed out twice because of what the *previous* execution in this process
                    // left behind. The pair (previous execution, this execution) is the reproducer; shrinking one half alone
                    // would be meaningless, so the file is written unminimised with the predecessor as its prelude.
                    let (pi, pj) = prev_run.unwrap();
                    let (_, psc) = profiles::scenario(&prop, &tier, profiles::scenario_seed(&prop, seed, pi), pi);
                    let pcfg = gen::gen_sched(mix(mix(seed, pi), 1000 + pj));
                    let mut rcfg = cfg.clone();
                    rcfg.replay = Some(jd.res.rep.decisions.clone());
                    let rf = ReplayFile {
                        property: prop.clone(),
                        signature: v0.sig.clone(),
                        engine: "S".into(),
                        features: features().iter().map(|s| s.to_string()).collect(),
                        seed,
                        run_index: i,
                        scenario: sc.clone(),
                        sched: rcfg,
                        violation: v0.clone(),
                        log_digest: format!("{:016x}", log_digest(&jd.res)),
                        minimised: false,
                        history: jd.res.log.clone(),
                        prelude: Some(Prelude { scenario: psc, sched: pcfg }),
                    };
                    let path = write_replay(&replay_dir, &rf);
                    st.violations.push(serde_json::json!({"violation": v0, "replay": path, "minimiser_executions": 0, "original_size": sc.size(), "minimised_size": sc.size(), "prelude_run": [pi, pj]}));
                    if st.violations.len() >= max_viol {
                        break 'outer;
                    }
                } else if seen_sigs.insert(key) {
                    // minimise, then write the replay file from a fresh execution of the minimised case
                    let (msc, mcfg, mv, execs) = minimise::minimise(&prop, &v0, &sc, &cfg, if tier == "quick" { 600 } else { 2000 });
                    let mut rcfg = mcfg.clone();
                    let jd2 = judge(&prop, &msc, &rcfg);
                    rcfg.replay = Some(jd2.res.rep.decisions.clone());
                    let rf = ReplayFile {
                        property: prop.clone(),
                        signature: mv.sig.clone(),
                        engine: "S".into(),
                        features: features().iter().map(|s| s.to_string()).collect(),
                        seed,
                        run_index: i,
                        scenario: msc,
                        sched: rcfg,
                        violation: mv.clone(),
                        log_digest: format!("{:016x}", log_digest(&jd2.res)),
                        minimised: true,
                        history: jd2.res.log.clone(),
                        prelude: None,
                    };
                    let path = write_replay(&replay_dir, &rf);
                    st.violations.push(serde_json::json!({"violation": mv, "replay": path, "minimiser_executions": execs, "original_size": sc.size(), "minimised_size": rf.scenario.size()}));
                    if st.violations.len() >= max_viol {
                        break 'outer;
                    }
                }
            }
        }
        i += nshards;
    }
    st.wall_s = t0.elapsed().as_secs_f64();
    st.extra.insert("distinct_fps".into(), serde_json::json!(fps.iter().map(|x| format!("{x:016x}")).collect::<Vec<_>>()));
    if prop == "C04" || prop == "C05" {
        st.extra.insert("grid_cells".into(), serde_json::json!(grid_cells.iter().collect::<Vec<_>>()));
    }
    if prop == "C12" && shard == 0 {
        // run index -> (base = index / 64, point = (index % 64) mod #points): per base scenario, how many
        // of its crash points does this budget execute? (computed once, by shard 0, for the whole range)
        let per = families::CRASH_POINTS_PER_BASE;
        let (mut bases, mut complete, mut executed, mut existing) = (0u64, 0u64, 0u64, 0u64);
        let mut b = 0;
        while b * per < scenarios {
            let first = b * per;
            // every 8th run index goes to the deadlock-panic family instead
            let slots = (first..(first + per).min(scenarios)).filter(|x| x % 8 != 7).count() as u64;
            let (_, _, n) = families::crash_point_scenario(profiles::scenario_seed(&prop, seed, first), first);
            let n = n as u64;
            bases += 1;
            existing += n;
            executed += slots.min(n);
            if slots >= n {
                complete += 1;
            }
            b += 1;
        }
        st.extra.insert("crash_point_bases".into(), serde_json::json!(bases));
        st.extra.insert("crash_point_bases_enumerated_completely".into(), serde_json::json!(complete));
        st.extra.insert("crash_points_executed".into(), serde_json::json!(executed));
        st.extra.insert("crash_points_existing_in_those_bases".into(), serde_json::json!(existing));
    }
    std::fs::write(&out, serde_json::to_string(&st).unwrap()).expect("write stats");
    if st.violations.is_empty() {
        0
    } else {
        1
    }
}

fn cmd_replay(args: &[String]) -> i32 {
    let path = &args[0];
    let rf: ReplayFile = serde_json::from_str(&std::fs::read_to_string(path).expect("read replay file")).expect("parse replay file");
    let want: Vec<String> = features().iter().map(|s| s.to_string()).collect();
    if rf.features != want {
        eprintln!("replay: this binary has features {want:?}, the file was recorded with {:?}", rf.features);
        return 3;
    }
    if let Some(p) = &rf.prelude {
        // the predecessor of the violating execution (process-wide state), under the same seeds as in the recording
        let pj = judge(&rf.property, &p.scenario, &p.sched);
        println!("prelude executed: {} events", pj.res.log.len());
    }
    let jd = judge(&rf.property, &rf.scenario, &rf.sched);
    let digest = format!("{:016x}", log_digest(&jd.res));
    for e in &jd.res.log {
        println!("{}", serde_json::to_string(e).unwrap());
    }
    println!("decisions: {:?}", jd.res.rep.decisions);
    if let Some(d) = jd.res.rep.diverged_at {
        println!("REPLAY-DIVERGED at decision {d}: the code under test no longer follows the recorded schedule");
    }
    let same_sig = jd.violations.iter().any(|v| v.prop == rf.violation.prop && v.sig == rf.violation.sig);
    for v in &jd.violations {
        println!("violation: {} {} @seq {}: {}", v.prop, v.sig, v.seq, v.text);
    }
    println!("digest: {digest} (recorded {})", rf.log_digest);
    if same_sig && digest == rf.log_digest {
        println!("REPRODUCED property={} signature={} (identical history)", rf.property, rf.signature);
        1
    } else if same_sig {
        println!("REPRODUCED property={} signature={} (history differs from the recording)", rf.property, rf.signature);
        1
    } else {
        println!("NOT-REPRODUCED property={} signature={}", rf.property, rf.signature);
        0
    }
}

/// Determinism gate: every seed executed twice in this process and digests written out, so that the
/// driver can also compare across processes and worker counts.
fn cmd_determinism(args: &[String]) -> i32 {
    let prop = arg(args, "--prop").unwrap_or("C01").to_string();
    let seed: u64 = arg(args, "--seed").and_then(|s| s.parse().ok()).unwrap_or(20260101);
    let n: u64 = arg(args, "--n").and_then(|s| s.parse().ok()).unwrap_or(200);
    let shard: u64 = arg(args, "--shard").and_then(|s| s.parse().ok()).unwrap_or(0);
    let nshards: u64 = arg(args, "--nshards").and_then(|s| s.parse().ok()).unwrap_or(1);
    let mut bad = 0;
    let mut i = shard;
    while i < n {
        let sseed = profiles::scenario_seed(&prop, seed, i);
        let (_, sc) = profiles::scenario(&prop, "quick", sseed, i);
        let cfg = gen::gen_sched(mix(mix(seed, i), 1000));
        let a = exec::execute(&sc, &cfg);
        let b = exec::execute(&sc, &cfg);
        let burn = a.probes.burn_used;
        let (da, db) = (log_digest(&a), log_digest(&b));
        // and once more following the recorded decision list
        let mut rcfg = cfg.clone();
        rcfg.replay = Some(a.rep.decisions.clone());
        let c = exec::execute(&sc, &rcfg);
        let dc = log_digest(&c);
        if !burn && (da != db || da != dc || c.rep.diverged_at.is_some()) {
            bad += 1;
            eprintln!("NONDETERMINISM prop={prop} run={i}: {da:016x} {db:016x} replay {dc:016x} diverged={:?}", c.rep.diverged_at);
            if let Some(dir) = arg(args, "--dump") {
                for (name, r) in [("a", &a), ("b", &b), ("c", &c)] {
                    let lines: Vec<String> = r.log.iter().map(|e| serde_json::to_string(e).unwrap()).collect();
                    let _ = std::fs::write(format!("{dir}/{prop}-{i}-{name}.log"), lines.join("\n"));
                }
            }
        }
        println!("{prop} {i} {da:016x}");
        i += nshards;
    }
    if bad > 0 {
        2
    } else {
        0
    }
}

/// C18, default-feature side: execute every (scenario, schedule) and stream one line per run with the
/// decision list, the ready-set hashes and the canonical per-event hashes.
fn cmd_record(args: &[String]) -> i32 {
    use std::io::Write;
    let prop = arg(args, "--prop").unwrap_or("C18").to_string();
    let tier = arg(args, "--tier").unwrap_or("quick").to_string();
    let seed: u64 = arg(args, "--seed").and_then(|s| s.parse().ok()).unwrap_or(20260101);
    let shard: u64 = arg(args, "--shard").and_then(|s| s.parse().ok()).unwrap_or(0);
    let nshards: u64 = arg(args, "--nshards").and_then(|s| s.parse().ok()).unwrap_or(1);
    let scenarios: u64 = arg(args, "--scenarios").and_then(|s| s.parse().ok()).unwrap_or_else(|| profiles::budget(&prop, &tier).0);
    let scheds: u64 = arg(args, "--schedules").and_then(|s| s.parse().ok()).unwrap_or_else(|| profiles::budget(&prop, &tier).1);
    let out = std::io::stdout();
    let mut out = std::io::BufWriter::new(out.lock());
    let mut i = shard;
    while i < scenarios {
        let sseed = profiles::scenario_seed(&prop, seed, i);
        let (_, sc) = profiles::scenario(&prop, &tier, sseed, i);
        for j in 0..scheds {
            let cfg = gen::gen_sched(mix(mix(seed, i), 1000 + j));
            let r = exec::execute(&sc, &cfg);
            let ch = canon_hashes(&r, true);
            let line = serde_json::json!({"i": i, "j": j, "inconclusive": r.inconclusive(), "decisions": r.rep.decisions, "ready": r.rep.ready_hashes, "ev": ch});
            if writeln!(out, "{line}").is_err() {
                return 0;
            }
        }
        i += nshards;
    }
    0
}

/// C18, feature-build side: read the default build's records from stdin, replay each decision list on
/// the same scenario in this build, compare in lock-step, run every monitor.
fn cmd_compare(args: &[String]) -> i32 {
    use std::io::BufRead;
    let prop = arg(args, "--prop").unwrap_or("C18").to_string();
    let tier = arg(args, "--tier").unwrap_or("quick").to_string();
    let seed: u64 = arg(args, "--seed").and_then(|s| s.parse().ok()).unwrap_or(20260101);
    let out = arg(args, "--out").unwrap_or("/dev/stdout").to_string();
    let replay_dir = arg(args, "--replay-dir").unwrap_or("../replays").to_string();
    let t0 = std::time::Instant::now();
    let mut st = Stats { property: prop.clone(), tier: tier.clone(), seed, features: features().iter().map(|s| s.to_string()).collect(), ..Default::default() };
    let mut fps: BTreeSet<u64> = BTreeSet::new();
    let mut identical = 0u64;
    let mut incomparable = 0u64;
    let mut seen_sigs: BTreeSet<String> = BTreeSet::new();
    let stdin = std::io::stdin();
    for line in stdin.lock().lines() {
        let line = match line {
            Ok(l) => l,
            Err(_) => break,
        };
        let rec: serde_json::Value = match serde_json::from_str(&line) {
            Ok(v) => v,
            Err(_) => continue,
        };
        let i = rec["i"].as_u64().unwrap();
        let j = rec["j"].as_u64().unwrap();
        let decisions: Vec<u32> = serde_json::from_value(rec["decisions"].clone()).unwrap();
        let ready: Vec<u32> = serde_json::from_value(rec["ready"].clone()).unwrap();
        let evh: Vec<(u64, u64)> = serde_json::from_value(rec["ev"].clone()).unwrap();
        let sseed = profiles::scenario_seed(&prop, seed, i);
        let (family, sc) = profiles::scenario(&prop, &tier, sseed, i);
        let mut cfg = gen::gen_sched(mix(mix(seed, i), 1000 + j));
        cfg.replay = Some(decisions);
        let res = exec::execute(&sc, &cfg);
        st.evaluations += 1;
        if j == 0 {
            st.scenarios += 1;
            *st.families.entry(family.to_string()).or_insert(0) += 1;
        }
        *st.strategies.entry(cfg.strategy.name().to_string()).or_insert(0) += 1;
        st.decisions_total += res.rep.steps;
        let (v, mut chk) = monitors_for(&prop, &sc, &res);
        let mut violations = profiles::select(&prop, v);
        let mine = canon_hashes(&res, true);
        let inconcl = res.inconclusive() || rec["inconclusive"].as_bool().unwrap_or(false);
        if inconcl {
            st.inconclusive += 1;
        } else {
            match lockstep(&res, &evh, &res, &mine, &ready, &res.rep.ready_hashes) {
                Ok(true) => {
                    identical += 1;
                    chk.hit("C18");
                }
                Ok(false) => incomparable += 1,
                Err((step, why)) => {
                    chk.hit("C18");
                    let idx = (0..evh.len().min(mine.len())).find(|x| evh[*x] != mine[*x]).unwrap_or(evh.len().min(mine.len()));
                    let el: Vec<&world::Ev> = res.log.iter().filter(|e| !matches!(e.k, world::EvKind::DlCount { .. } | world::EvKind::Graph { .. })).collect();
                    let text = format!("features {:?} vs default: {why}; this build logged {:?} there", features(), el.get(idx).map(|e| &e.k));
                    violations.push(Violation { prop: prop.clone(), sig: "differential".into(), text, seq: step });
                }
            }
        }
        for (k, v) in &chk.0 {
            *st.checked.entry(k.to_string()).or_insert(0) += v;
        }
        count_faults(&sc, &res, &mut st);
        if chk.get("C18") > 0 {
            st.nontrivial += 1;
            fps.insert(h64(&(&res.rep.decisions, order_fp(&res))));
        }
        if st.samples.len() < 2 && chk.get("C18") > 0 {
            st.samples.push(serde_json::json!({"family": family, "run_index": i, "schedule_index": j, "scenario": sc, "decisions": res.rep.decisions, "features": features(), "canonical_events_compared": mine.len()}));
        }
        if let Some(v0) = violations.first() {
            let key = format!("{}:{}", v0.prop, v0.sig);
            if seen_sigs.insert(key) {
                let rf = ReplayFile {
                    property: prop.clone(),
                    signature: v0.sig.clone(),
                    engine: "S".into(),
                    features: features().iter().map(|s| s.to_string()).collect(),
                    seed,
                    run_index: i,
                    scenario: sc.clone(),
                    sched: cfg.clone(),
                    violation: v0.clone(),
                    log_digest: format!("{:016x}", log_digest(&res)),
                    minimised: false,
                    history: res.log.clone(),
                    prelude: None,
                };
                let path = write_replay(&replay_dir, &rf);
                st.violations.push(serde_json::json!({"violation": v0, "replay": path}));
                if st.violations.len() >= 3 {
                    break;
                }
            }
        }
    }
    st.wall_s = t0.elapsed().as_secs_f64();
    st.extra.insert("distinct_fps".into(), serde_json::json!(fps.iter().map(|x| format!("{x:016x}")).collect::<Vec<_>>()));
    st.extra.insert("pairs_identical".into(), serde_json::json!(identical));
    st.extra.insert("pairs_incomparable".into(), serde_json::json!(incomparable));
    std::fs::write(&out, serde_json::to_string(&st).unwrap()).expect("write stats");
    if st.violations.is_empty() {
        0
    } else {
        1
    }
}

/// C09, process-wide default capacity: one configuration per fresh process (the default lives in a
/// OnceLock). Modes: unset | set:N | set-twice:N:M | zero-then:N. Prints one JSON line; exit 1 on violation.
fn cmd_capconfig(args: &[String]) -> i32 {
    let mode = args.first().cloned().unwrap_or_else(|| "unset".into());
    let parts: Vec<&str> = mode.split(':').collect();
    let num = |i: usize| -> usize { parts.get(i).and_then(|x| x.parse().ok()).unwrap_or(0) };
    let mut problems: Vec<String> = Vec::new();
    let is_cap_err = |r: &rsactor::Result<()>| matches!(r, Err(rsactor::Error::MailboxCapacity { .. }));
    let expected = match parts[0] {
        "unset" => DEFAULT_CAP,
        "set" => {
            let r = rsactor::set_default_mailbox_capacity(num(1));
            if r.is_err() {
                problems.push(format!("set_default_mailbox_capacity({}) failed: {r:?}", num(1)));
            }
            num(1)
        }
        "set-twice" => {
            let r1 = rsactor::set_default_mailbox_capacity(num(1));
            let r2 = rsactor::set_default_mailbox_capacity(num(2));
            if r1.is_err() {
                problems.push(format!("first set_default_mailbox_capacity({}) failed: {r1:?}", num(1)));
            }
            if !is_cap_err(&r2) {
                problems.push(format!("second set_default_mailbox_capacity({}) returned {r2:?}, expected Err(MailboxCapacity)", num(2)));
            }
            num(1)
        }
        "zero-then" => {
            let r0 = rsactor::set_default_mailbox_capacity(0);
            if !is_cap_err(&r0) {
                problems.push(format!("set_default_mailbox_capacity(0) returned {r0:?}, expected Err(MailboxCapacity)"));
            }
            let r1 = rsactor::set_default_mailbox_capacity(num(1));
            if r1.is_err() {
                problems.push(format!("set_default_mailbox_capacity({}) after a rejected 0 failed: {r1:?}", num(1)));
            }
            num(1)
        }
        "spawn-then-set" => {
            // an actor spawned with the built-in default before the application configures its own: the
            // configuration call is still the first one and must succeed; later spawns use the new value
            let pre = Scenario { actors: vec![ActorSpec { cap: None, ..Default::default() }], clients: vec![vec![Op::Tell { h: 0, m: Msg::work(9001) }, Op::Stop { h: 0 }]], ..Default::default() };
            let cfg0 = SchedCfg { seed: 3, strategy: exec::StrategyCfg::Fifo, spurious_permille: 0, max_steps: 20_000, replay: None, split_permille: 0 };
            let _ = exec::execute(&pre, &cfg0);
            let r = rsactor::set_default_mailbox_capacity(num(1));
            if r.is_err() {
                problems.push(format!("set_default_mailbox_capacity({}) after an earlier spawn() failed: {r:?} (the default can be configured exactly once - an earlier spawn must not use that up)", num(1)));
            }
            num(1)
        }
        other => {
            eprintln!("unknown mode {other}");
            return 2;
        }
    };
    // measure: an actor spawned with `spawn()` stalls in on_start; one sender issues tells until it blocks
    let n = expected + 5;
    let mut ops = Vec::new();
    for i in 0..n {
        ops.push(Op::Tell { h: 0, m: Msg::work(i as u64 + 1) });
    }
    let sc = Scenario { actors: vec![ActorSpec { cap: None, on_start: vec![Op::Wait(1)], ..Default::default() }], clients: vec![ops], ..Default::default() };
    let cfg = SchedCfg { seed: 7, strategy: exec::StrategyCfg::Fifo, spurious_permille: 0, max_steps: 20_000, replay: None, split_permille: 0 };
    let r = exec::execute(&sc, &cfg);
    let accepted = r.log.iter().filter(|e| matches!(&e.k, world::EvKind::Ret { res: world::Res::Ok, .. })).count();
    if accepted != expected {
        problems.push(format!("spawn() gave a mailbox that accepted {accepted} messages before blocking, expected capacity {expected}"));
    }
    println!("{}", serde_json::json!({"mode": mode, "expected_capacity": expected, "measured_capacity": accepted, "problems": problems}));
    if problems.is_empty() {
        0
    } else {
        1
    }
}

fn cmd_show(args: &[String]) -> i32 {
    let prop = arg(args, "--prop").unwrap_or("C01").to_string();
    let seed: u64 = arg(args, "--seed").and_then(|s| s.parse().ok()).unwrap_or(20260101);
    let i: u64 = arg(args, "--index").and_then(|s| s.parse().ok()).unwrap_or(0);
    let j: u64 = arg(args, "--sched").and_then(|s| s.parse().ok()).unwrap_or(0);
    let tier = arg(args, "--tier").unwrap_or("quick").to_string();
    let sseed = profiles::scenario_seed(&prop, seed, i);
    let (family, sc) = profiles::scenario(&prop, &tier, sseed, i);
    let cfg = gen::gen_sched(mix(mix(seed, i), 1000 + j));
    println!("family {family}\nscenario {}\nsched {}", serde_json::to_string(&sc).unwrap(), serde_json::to_string(&cfg).unwrap());
    let jd = judge(&prop, &sc, &cfg);
    for e in &jd.res.log {
        println!("{}", serde_json::to_string(e).unwrap());
    }
    println!("phases {:?} pending {:?}", jd.res.phases, jd.res.pending_tasks);
    for v in &jd.violations {
        println!("violation: {} {} @seq {}: {}", v.prop, v.sig, v.seq, v.text);
    }
    println!("checked {:?}", jd.checked.0);
    0
}

fn main() {
    install_panic_hook();
    let args: Vec<String> = std::env::args().skip(1).collect();
    let code = match args.first().map(|s| s.as_str()) {
        Some("run") => cmd_run(&args[1..]),
        Some("replay") => cmd_replay(&args[1..]),
        Some("determinism") => cmd_determinism(&args[1..]),
        Some("show") => cmd_show(&args[1..]),
        Some("record") => cmd_record(&args[1..]),
        Some("capconfig") => cmd_capconfig(&args[1..]),
        Some("compare") => cmd_compare(&args[1..]),
        Some("features") => {
            println!("{}", features().join(","));
            0
        }
        _ => {
            eprintln!("usage: simh run|replay|determinism|show|features ...");
            2
        }
    };
    std::process::exit(code);
}
