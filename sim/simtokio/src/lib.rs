//! Engine S seam. This crate's *lib name* is `tokio`: rsactor (compiled unmodified from /repo/src
//! through the shadow manifest) and the harness both see it as `tokio`. It is the real tokio 1.49.0
//! (glob re-export, macros included) with `spawn` replaced, which wraps the
//! future in a [`sim::Gate`] so that the simulator - and only the simulator - decides which task's
//! next poll is allowed to reach the inner future. Nothing of tokio is stubbed.
pub use real_tokio::*;

pub mod sim;

mod mpsc_shim;

/// `tokio::sync` with the bounded mpsc channel replaced by [`mpsc_shim`] (see there)
pub mod sync {
    pub use real_tokio::sync::*;
    pub mod mpsc {
        pub use crate::mpsc_shim::*;
    }
}

/// `tokio::time` with `timeout` marking the polls of its inner future (see [`mpsc_shim`])
pub mod time {
    pub use real_tokio::time::*;
    pub fn timeout<F: std::future::IntoFuture>(duration: std::time::Duration, future: F) -> real_tokio::time::Timeout<crate::sim::InTimeout<F::IntoFuture>> {
        real_tokio::time::timeout(duration, crate::sim::InTimeout::new(future.into_future()))
    }
}

pub mod task {
    pub use crate::sim::spawn;
    pub use real_tokio::task::*;
}
pub use crate::sim::spawn;
