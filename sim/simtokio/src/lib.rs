//! Engine S seam. This crate's *lib name* is `tokio`: rsactor (compiled unmodified from /repo/src
//! through the shadow manifest) and the harness both see it as `tokio`. It is the real tokio 1.49.0
//! (glob re-export, macros included) with exactly one thing replaced: `spawn`, which wraps the
//! future in a [`sim::Gate`] so that the simulator - and only the simulator - decides which task's
//! next poll is allowed to reach the inner future. Nothing of tokio is stubbed.
pub use real_tokio::*;

pub mod sim;

pub mod task {
    pub use crate::sim::spawn;
    pub use real_tokio::task::*;
}
pub use crate::sim::spawn;
