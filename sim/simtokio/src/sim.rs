//! The gate simulator (DESIGN.md section 2).
//!
//! * every task spawned through `tokio::spawn` is a *real* tokio task wrapping a [`Gate`];
//! * a `Gate` lets a poll through to the inner future only when the scheduler has chosen it, and
//!   gives the inner future a proxy waker that records "this task is ready" with the simulator;
//! * the scheduler is the root future of `block_on` on a paused current-thread runtime: it picks the
//!   next task from the ready set with a seeded PRNG (or from a recorded decision list), so the
//!   decision list *is* the schedule and one seed is one exactly repeatable execution;
//! * tokio's paused clock advances only when nothing is runnable, straight to the next timer; a
//!   far-away sentinel timer therefore fires exactly at global quiescence.
//!
//! State is thread-local: one simulation per thread at a time. When no simulation is installed
//! `spawn` is plain `tokio::spawn`.
use std::cell::RefCell;
use std::collections::{BTreeMap, BTreeSet};
use std::future::Future;
use std::pin::Pin;
use std::sync::Arc;
use std::task::{Context, Poll, Wake, Waker};
use std::time::Duration;

pub type TaskId = u32;

/// Sentinel horizon: far beyond any generated duration (1 h timeouts), far below tokio's
/// far-future deadline used for `Duration::MAX`.
pub const SENTINEL: Duration = Duration::from_secs(10_000_000);

#[derive(Clone, Debug, PartialEq, Eq)]
pub enum Strategy {
    /// any ready task, uniformly
    Uniform,
    /// wake order (what a real current-thread runtime would roughly do)
    Fifo,
    /// keep running the previous task with probability p/1000 while it is ready
    Sticky(u32),
    /// random priorities with `depth` priority-change points in the first `horizon` steps
    Pct { depth: u32, horizon: u32 },
    /// tasks whose name starts with one of the prefixes only run when nothing else is ready
    Starve(Vec<String>),
}

#[derive(Clone, Debug)]
pub struct Config {
    pub seed: u64,
    pub strategy: Strategy,
    /// probability (per mille, per decision) of additionally polling a live, un-woken task
    pub spurious_permille: u32,
    pub max_steps: u64,
    /// recorded decision list to follow; when exhausted (or diverged) fall back to the strategy
    pub replay: Option<Vec<TaskId>>,
    /// probability (per mille, per bounded-channel send outside a timeout) of yielding to the simulator
    /// between the send's slot reservation and its push (see `mpsc_shim`); drawn from a stream of its own
    pub split_send_permille: u32,
}

#[derive(Clone, Debug, Default)]
pub struct Report {
    pub decisions: Vec<TaskId>,
    /// hash of the ready set at every decision (lock-step comparison of two runs)
    pub ready_hashes: Vec<u32>,
    pub steps: u64,
    pub spurious_fired: u64,
    /// sends that yielded between reservation and push
    pub sends_split: u64,
    pub context_switches: u64,
    pub tasks_spawned: u32,
    /// set when a recorded decision could not be followed
    pub diverged_at: Option<u64>,
    pub names: BTreeMap<TaskId, String>,
}

#[derive(Clone, Copy, Debug, PartialEq, Eq)]
pub enum Quiescence {
    /// every gated task has finished
    AllDone,
    /// nothing can ever run again, yet tasks are still alive (blocked forever)
    Quiescent,
    /// decision budget exhausted (inconclusive, never a verdict)
    StepLimit,
}

#[derive(Clone, Debug)]
pub struct Rng(pub u64);
impl Rng {
    pub fn next(&mut self) -> u64 {
        self.0 = self.0.wrapping_add(0x9E37_79B9_7F4A_7C15);
        let mut z = self.0;
        z = (z ^ (z >> 30)).wrapping_mul(0xBF58_476D_1CE4_E5B9);
        z = (z ^ (z >> 27)).wrapping_mul(0x94D0_49BB_1331_11EB);
        z ^ (z >> 31)
    }
    pub fn below(&mut self, n: u64) -> u64 {
        if n == 0 {
            0
        } else {
            self.next() % n
        }
    }
    pub fn chance(&mut self, permille: u32) -> bool {
        permille > 0 && self.below(1000) < permille as u64
    }
}

struct State {
    cfg: Config,
    rng: Rng,
    split_rng: Rng,
    in_timeout: u32,
    next_id: TaskId,
    live: BTreeSet<TaskId>,
    ready: Vec<TaskId>,
    chosen: Option<TaskId>,
    running: Option<TaskId>,
    task_wakers: BTreeMap<TaskId, Waker>,
    sched_waker: Option<Waker>,
    names: BTreeMap<TaskId, String>,
    next_name: Option<String>,
    prio: BTreeMap<TaskId, u64>,
    change_points: BTreeSet<u64>,
    low_prio: u64,
    last: Option<TaskId>,
    replay_pos: usize,
    rep: Report,
}

thread_local! {
    static SIM: RefCell<Option<State>> = const { RefCell::new(None) };
}

fn with<R>(f: impl FnOnce(&mut State) -> R) -> Option<R> {
    SIM.with(|s| {
        let mut b = s.borrow_mut();
        b.as_mut().map(f)
    })
}

/// Install a simulation on this thread. Panics if one is already installed.
pub fn install(cfg: Config) {
    SIM.with(|s| {
        let mut b = s.borrow_mut();
        assert!(b.is_none(), "a simulation is already installed on this thread");
        let mut rng = Rng(cfg.seed ^ 0x5151_5EED_0000_0001);
        let mut change_points = BTreeSet::new();
        if let Strategy::Pct { depth, horizon } = &cfg.strategy {
            for _ in 0..*depth {
                change_points.insert(rng.below((*horizon).max(1) as u64));
            }
        }
        *b = Some(State {
            split_rng: Rng(cfg.seed ^ 0x5EED_0F5E_4D5E_0002),
            in_timeout: 0,
            rng,
            next_id: 0,
            live: BTreeSet::new(),
            ready: Vec::new(),
            chosen: None,
            running: None,
            task_wakers: BTreeMap::new(),
            sched_waker: None,
            names: BTreeMap::new(),
            next_name: None,
            prio: BTreeMap::new(),
            change_points,
            low_prio: 1 << 20,
            last: None,
            replay_pos: 0,
            rep: Report::default(),
            cfg,
        });
    });
}

/// Remove the simulation and return what it recorded. Call after the runtime has been dropped.
pub fn uninstall() -> Report {
    let st = SIM.with(|s| s.borrow_mut().take());
    let mut st = st.expect("no simulation installed");
    st.rep.names = std::mem::take(&mut st.names);
    st.rep.tasks_spawned = st.next_id;
    let rep = st.rep.clone();
    // wakers are dropped here, outside the RefCell borrow
    drop(st);
    rep
}

pub fn is_installed() -> bool {
    SIM.with(|s| s.borrow().is_some())
}

/// The gated task whose inner future is being polled right now (None in the root future).
pub fn current_task() -> Option<TaskId> {
    with(|s| s.running).flatten()
}

/// Number of scheduler decisions taken so far (a poll-granular logical clock).
pub fn step() -> u64 {
    with(|s| s.rep.steps).unwrap_or(0)
}

/// Name the next task spawned on this thread (for logs, `Starve`, replay files).
pub fn name_next_spawn(name: impl Into<String>) {
    let n = name.into();
    with(|s| s.next_name = Some(n));
}

pub fn live_tasks() -> Vec<TaskId> {
    with(|s| s.live.iter().copied().collect()).unwrap_or_default()
}

pub fn task_name(id: TaskId) -> String {
    with(|s| s.names.get(&id).cloned()).flatten().unwrap_or_else(|| format!("task{id}"))
}

struct Proxy {
    id: TaskId,
}
impl Wake for Proxy {
    fn wake(self: Arc<Self>) {
        self.wake_by_ref()
    }
    fn wake_by_ref(self: &Arc<Self>) {
        let id = self.id;
        // A wake from a foreign thread finds no simulation there and is ignored (Engine S is
        // single-threaded by construction; Engine M handles threads).
        let w = SIM.with(|s| {
            // (a re-entrant borrow here would be a harness bug and panics loudly rather than
            // silently losing a wake)
            let mut b = s.borrow_mut();
            let st = b.as_mut()?;
            // late wakes for finished tasks must not resurrect them
            if st.live.contains(&id) && !st.ready.contains(&id) {
                st.ready.push(id);
            }
            st.sched_waker.clone()
        });
        if let Some(w) = w {
            w.wake();
        }
    }
}

pub struct Gate<F: Future> {
    id: TaskId,
    inner: Pin<Box<F>>,
    proxy: Waker,
}

struct RunGuard;
impl Drop for RunGuard {
    fn drop(&mut self) {
        let w = with(|s| {
            s.running = None;
            s.sched_waker.clone()
        })
        .flatten();
        if let Some(w) = w {
            w.wake();
        }
    }
}

impl<F: Future> Future for Gate<F> {
    type Output = F::Output;
    fn poll(self: Pin<&mut Self>, cx: &mut Context<'_>) -> Poll<F::Output> {
        let this = unsafe { self.get_unchecked_mut() };
        let id = this.id;
        let (go, old) = with(|s| {
            let old = s.task_wakers.insert(id, cx.waker().clone());
            if s.chosen == Some(id) {
                s.chosen = None;
                s.running = Some(id);
                (true, old)
            } else {
                (false, old)
            }
        })
        .unwrap_or((true, None)); // no simulation installed any more: behave like a plain task
        drop(old);
        if !go {
            return Poll::Pending;
        }
        let _g = RunGuard;
        let mut icx = Context::from_waker(&this.proxy);
        this.inner.as_mut().poll(&mut icx)
    }
}

impl<F: Future> Drop for Gate<F> {
    fn drop(&mut self) {
        let id = self.id;
        let r = with(|s| {
            s.live.remove(&id);
            s.ready.retain(|x| *x != id);
            if s.chosen == Some(id) {
                s.chosen = None;
            }
            (s.task_wakers.remove(&id), s.sched_waker.clone())
        });
        if let Some((old, w)) = r {
            drop(old);
            if let Some(w) = w {
                w.wake();
            }
        }
    }
}

/// `tokio::spawn` as rsactor and the harness see it.
#[track_caller]
pub fn spawn<F>(future: F) -> real_tokio::task::JoinHandle<F::Output>
where
    F: Future + Send + 'static,
    F::Output: Send + 'static,
{
    let id = with(|s| {
        let id = s.next_id;
        s.next_id += 1;
        s.live.insert(id);
        s.ready.push(id); // a new task is runnable
        let name = s.next_name.take().unwrap_or_else(|| format!("task{id}"));
        s.names.insert(id, name);
        let p = s.rng.next() >> 1 | (1 << 40);
        s.prio.insert(id, p);
        (id, s.sched_waker.clone())
    });
    match id {
        None => real_tokio::task::spawn(future),
        Some((id, w)) => {
            let proxy = Waker::from(Arc::new(Proxy { id }));
            let h = real_tokio::task::spawn(Gate { id, inner: Box::pin(future), proxy });
            if let Some(w) = w {
                w.wake();
            }
            h
        }
    }
}

/// Spawn with a name (harness convenience).
pub fn spawn_named<F>(name: impl Into<String>, future: F) -> real_tokio::task::JoinHandle<F::Output>
where
    F: Future + Send + 'static,
    F::Output: Send + 'static,
{
    name_next_spawn(name);
    spawn(future)
}

fn hash_ready(ready: &[TaskId]) -> u32 {
    let mut v: Vec<TaskId> = ready.to_vec();
    v.sort_unstable();
    let mut h: u32 = 0x811C_9DC5;
    for x in v {
        h ^= x.wrapping_add(1);
        h = h.wrapping_mul(0x0100_0193);
    }
    h
}

impl State {
    fn is_victim(&self, id: TaskId, prefixes: &[String]) -> bool {
        match self.names.get(&id) {
            Some(n) => prefixes.iter().any(|p| n.starts_with(p.as_str())),
            None => false,
        }
    }

    /// Choose the next task to poll. Returns (task, spurious).
    fn pick(&mut self) -> Option<(TaskId, bool)> {
        if self.ready.is_empty() {
            return None;
        }
        // 1. replay
        if let Some(list) = &self.cfg.replay {
            if self.rep.diverged_at.is_none() && self.replay_pos < list.len() {
                let want = list[self.replay_pos];
                self.replay_pos += 1;
                if self.ready.contains(&want) {
                    return Some((want, false));
                }
                if self.live.contains(&want) && self.task_wakers.contains_key(&want) {
                    return Some((want, true));
                }
                self.rep.diverged_at = Some(self.rep.steps);
            }
        }
        // 2. spurious poll of a live, un-woken task (always legal for a Future)
        if self.rng.chance(self.cfg.spurious_permille) {
            let cands: Vec<TaskId> = self
                .live
                .iter()
                .copied()
                .filter(|t| !self.ready.contains(t) && self.task_wakers.contains_key(t))
                .collect();
            if !cands.is_empty() {
                let t = cands[self.rng.below(cands.len() as u64) as usize];
                return Some((t, true));
            }
        }
        // 3. strategy
        let n = self.ready.len() as u64;
        let strategy = self.cfg.strategy.clone();
        let t = match strategy {
            Strategy::Uniform => self.ready[self.rng.below(n) as usize],
            Strategy::Fifo => self.ready[0],
            Strategy::Sticky(p) => match self.last {
                Some(l) if self.ready.contains(&l) && self.rng.chance(p) => l,
                _ => self.ready[self.rng.below(n) as usize],
            },
            Strategy::Pct { .. } => {
                let mut best = self.ready[0];
                for &t in &self.ready {
                    if self.prio.get(&t) > self.prio.get(&best) {
                        best = t;
                    }
                }
                if self.change_points.contains(&self.rep.steps) {
                    self.low_prio -= 1;
                    let lp = self.low_prio;
                    self.prio.insert(best, lp);
                }
                best
            }
            Strategy::Starve(prefixes) => {
                let others: Vec<TaskId> =
                    self.ready.iter().copied().filter(|t| !self.is_victim(*t, &prefixes)).collect();
                if others.is_empty() {
                    self.ready[self.rng.below(n) as usize]
                } else {
                    others[self.rng.below(others.len() as u64) as usize]
                }
            }
        };
        Some((t, false))
    }
}

/// Drive the simulation until every gated task has finished, or nothing can ever run again, or
/// the decision budget is exhausted. Must be awaited from the root future of `block_on`.
pub async fn run_until_quiescent() -> Quiescence {
    let mut sentinel: Option<Pin<Box<real_tokio::time::Sleep>>> = None;
    std::future::poll_fn(move |cx| {
        enum Next {
            Wait,
            Done(Quiescence),
            Wake(Option<Waker>),
            Idle,
        }
        loop {
            let next = with(|s| {
                s.sched_waker = Some(cx.waker().clone());
                if s.chosen.is_some() || s.running.is_some() {
                    return Next::Wait;
                }
                if s.rep.steps >= s.cfg.max_steps {
                    return Next::Done(Quiescence::StepLimit);
                }
                if let Some((t, spurious)) = s.pick() {
                    let rh = hash_ready(&s.ready);
                    if spurious {
                        s.rep.spurious_fired += 1;
                    } else {
                        s.ready.retain(|x| *x != t);
                    }
                    if s.last != Some(t) {
                        s.rep.context_switches += 1;
                    }
                    s.last = Some(t);
                    s.chosen = Some(t);
                    s.rep.steps += 1;
                    s.rep.decisions.push(t);
                    s.rep.ready_hashes.push(rh);
                    return Next::Wake(s.task_wakers.get(&t).cloned());
                }
                if s.live.is_empty() {
                    return Next::Done(Quiescence::AllDone);
                }
                Next::Idle
            })
            .expect("run_until_quiescent without an installed simulation");
            match next {
                Next::Wait => return Poll::Pending,
                Next::Done(q) => {
                    sentinel = None;
                    return Poll::Ready(q);
                }
                Next::Wake(w) => {
                    sentinel = None;
                    // The task may not have been polled by tokio yet (no waker stored): it is
                    // still in tokio's run queue from its spawn and will see `chosen` then.
                    if let Some(w) = w {
                        w.wake();
                    }
                    return Poll::Pending;
                }
                Next::Idle => {
                    let sl = sentinel.get_or_insert_with(|| Box::pin(real_tokio::time::sleep(SENTINEL)));
                    match sl.as_mut().poll(cx) {
                        Poll::Ready(()) => {
                            // the clock could only get here because nothing was runnable and no
                            // earlier timer existed: global quiescence. (A timer at the very same
                            // instant would have put its task into `ready` first.)
                            sentinel = None;
                            let still_idle = with(|s| s.ready.is_empty()).unwrap_or(true);
                            if still_idle {
                                return Poll::Ready(Quiescence::Quiescent);
                            }
                            continue;
                        }
                        Poll::Pending => return Poll::Pending,
                    }
                }
            }
        }
    })
    .await
}

/// Should the bounded-channel send that has just reserved its slot yield before it pushes?
pub fn split_this_send() -> bool {
    with(|s| {
        if s.cfg.split_send_permille == 0 || s.in_timeout > 0 || s.running.is_none() {
            return false;
        }
        let p = s.cfg.split_send_permille;
        let hit = s.split_rng.chance(p);
        if hit {
            s.rep.sends_split += 1;
        }
        hit
    })
    .unwrap_or(false)
}

/// Marks the polls of the future inside `tokio::time::timeout`.
pub struct InTimeout<F> {
    inner: F,
}
impl<F> InTimeout<F> {
    pub fn new(inner: F) -> Self {
        InTimeout { inner }
    }
}
impl<F: Future> Future for InTimeout<F> {
    type Output = F::Output;
    fn poll(self: Pin<&mut Self>, cx: &mut Context<'_>) -> Poll<F::Output> {
        struct Leave;
        impl Drop for Leave {
            fn drop(&mut self) {
                with(|s| s.in_timeout = s.in_timeout.saturating_sub(1));
            }
        }
        with(|s| s.in_timeout += 1);
        let _leave = Leave;
        let inner = unsafe { self.map_unchecked_mut(|s| &mut s.inner) };
        inner.poll(cx)
    }
}

/// Cooperative yield for harness-owned code: Pending once, woken immediately.
pub fn yield_now() -> impl Future<Output = ()> + Send {
    let mut yielded = false;
    std::future::poll_fn(move |cx| {
        if yielded {
            Poll::Ready(())
        } else {
            yielded = true;
            cx.waker().wake_by_ref();
            Poll::Pending
        }
    })
}

/// Build the runtime a simulation runs on: one thread, paused clock, seeded internal RNG.
pub fn runtime(seed: u64) -> real_tokio::runtime::Runtime {
    let mut b = real_tokio::runtime::Builder::new_current_thread();
    b.enable_time().start_paused(true);
    #[cfg(tokio_unstable)]
    b.rng_seed(real_tokio::runtime::RngSeed::from_bytes(&seed.to_le_bytes()));
    let _ = seed;
    b.build().expect("runtime")
}
