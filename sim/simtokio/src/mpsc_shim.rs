//! `tokio::sync::mpsc` as rsactor sees it in Engine S: the real bounded channel, with one scheduling
//! point added. tokio's `Sender::send` is `reserve().await` followed by `Permit::send`; on a
//! multi-thread runtime the sending thread can be descheduled between the two, so that other tasks
//! (the receiving actor ending, other senders, a stop or kill) run *inside* a send whose slot is already
//! reserved. A current-thread runtime can never show that: there is no await between the two steps. This
//! shim performs exactly the same two steps and, when the simulation's configuration says so, yields to
//! the simulator between them (the push still always happens: a future dropped inside the window pushes
//! in its destructor, because on real threads nothing can cancel a send between its two halves).
//!
//! Sends that run inside `tokio::time::timeout` (as seen through this crate) are never split: inside one
//! poll of `Timeout` the inner future is polled before the deadline is looked at, so on real threads a
//! send that gets its slot in that poll always completes first - splitting it would invent an outcome
//! ("timed out, yet delivered") that no real execution has.
use real_tokio::sync::mpsc as real;
use std::fmt;

pub use real::error;
pub use real::{unbounded_channel, OwnedPermit, Permit, PermitIterator, Receiver, UnboundedReceiver, UnboundedSender, WeakUnboundedSender};

pub fn channel<T>(buffer: usize) -> (Sender<T>, Receiver<T>) {
    let (tx, rx) = real::channel(buffer);
    (Sender { inner: tx }, rx)
}

pub struct Sender<T> {
    inner: real::Sender<T>,
}

pub struct WeakSender<T> {
    inner: real::WeakSender<T>,
}

impl<T> Clone for Sender<T> {
    fn clone(&self) -> Self {
        Sender { inner: self.inner.clone() }
    }
}
impl<T> Clone for WeakSender<T> {
    fn clone(&self) -> Self {
        WeakSender { inner: self.inner.clone() }
    }
}
impl<T> fmt::Debug for Sender<T> {
    fn fmt(&self, f: &mut fmt::Formatter<'_>) -> fmt::Result {
        self.inner.fmt(f)
    }
}
impl<T> fmt::Debug for WeakSender<T> {
    fn fmt(&self, f: &mut fmt::Formatter<'_>) -> fmt::Result {
        self.inner.fmt(f)
    }
}

/// a reserved slot whose value has not been pushed yet: pushed on drop at the latest
struct PendingPush<'a, T> {
    slot: Option<(real::Permit<'a, T>, T)>,
}
impl<T> PendingPush<'_, T> {
    fn push(&mut self) {
        if let Some((permit, value)) = self.slot.take() {
            permit.send(value);
        }
    }
}
impl<T> Drop for PendingPush<'_, T> {
    fn drop(&mut self) {
        self.push();
    }
}

impl<T> Sender<T> {
    pub async fn send(&self, value: T) -> Result<(), error::SendError<T>> {
        match self.inner.reserve().await {
            Ok(permit) => {
                if crate::sim::split_this_send() {
                    let mut pending = PendingPush { slot: Some((permit, value)) };
                    crate::sim::yield_now().await;
                    pending.push();
                } else {
                    permit.send(value);
                }
                Ok(())
            }
            Err(_) => Err(error::SendError(value)),
        }
    }
    pub async fn closed(&self) {
        self.inner.closed().await
    }
    pub fn try_send(&self, message: T) -> Result<(), error::TrySendError<T>> {
        self.inner.try_send(message)
    }
    pub async fn send_timeout(&self, value: T, timeout: std::time::Duration) -> Result<(), error::SendTimeoutError<T>> {
        self.inner.send_timeout(value, timeout).await
    }
    pub fn blocking_send(&self, value: T) -> Result<(), error::SendError<T>> {
        self.inner.blocking_send(value)
    }
    pub fn is_closed(&self) -> bool {
        self.inner.is_closed()
    }
    pub async fn reserve(&self) -> Result<real::Permit<'_, T>, error::SendError<()>> {
        self.inner.reserve().await
    }
    pub fn try_reserve(&self) -> Result<real::Permit<'_, T>, error::TrySendError<()>> {
        self.inner.try_reserve()
    }
    pub async fn reserve_many(&self, n: usize) -> Result<real::PermitIterator<'_, T>, error::SendError<()>> {
        self.inner.reserve_many(n).await
    }
    pub fn try_reserve_many(&self, n: usize) -> Result<real::PermitIterator<'_, T>, error::TrySendError<()>> {
        self.inner.try_reserve_many(n)
    }
    /// (the owned permit hands back tokio's own `Sender` when it is used; code that needs that value as this
    /// crate's `Sender` does not compile against the shim - no such code exists in rsactor)
    pub async fn reserve_owned(self) -> Result<real::OwnedPermit<T>, error::SendError<()>> {
        self.inner.reserve_owned().await
    }
    pub fn try_reserve_owned(self) -> Result<real::OwnedPermit<T>, error::TrySendError<Self>> {
        self.inner.try_reserve_owned().map_err(|e| match e {
            error::TrySendError::Full(inner) => error::TrySendError::Full(Sender { inner }),
            error::TrySendError::Closed(inner) => error::TrySendError::Closed(Sender { inner }),
        })
    }
    pub fn same_channel(&self, other: &Self) -> bool {
        self.inner.same_channel(&other.inner)
    }
    pub fn capacity(&self) -> usize {
        self.inner.capacity()
    }
    pub fn max_capacity(&self) -> usize {
        self.inner.max_capacity()
    }
    pub fn downgrade(&self) -> WeakSender<T> {
        WeakSender { inner: self.inner.downgrade() }
    }
    pub fn strong_count(&self) -> usize {
        self.inner.strong_count()
    }
    pub fn weak_count(&self) -> usize {
        self.inner.weak_count()
    }
}

impl<T> WeakSender<T> {
    pub fn upgrade(&self) -> Option<Sender<T>> {
        self.inner.upgrade().map(|inner| Sender { inner })
    }
    pub fn strong_count(&self) -> usize {
        self.inner.strong_count()
    }
    pub fn weak_count(&self) -> usize {
        self.inner.weak_count()
    }
}
